"""Pinned reference implementations (rule R24): source that is PARSED, never imported or executed.

Each function below is the reviewed behaviour of the repository function of the same qualified name
(state of the repaired tree, reviewed against the property statements while the defects of DESIGN
section 12.4 were fixed).  Regenerate with tools/make_pinned.py only after reviewing a behaviour change."""
# flake8: noqa

class AttackGraph:
    def add_node(
                self,
                node: AttackGraphNode,
                node_id: Optional[int] = None
            ) -> None:
            """Add a node to the graph
            Arguments:
            node    - the node to add
            node_id - the id to assign to this node, usually used when loading
                      an attack graph from a file
            """
            if logger.isEnabledFor(logging.DEBUG):
                # Avoid running json.dumps when not in debug
                logger.debug(f'Add node \"{node.full_name}\" '
                    f'with id:{node_id}:\n' \
                    + json.dumps(node.to_dict(), indent = 2))

            new_node_id = node_id if node_id is not None else self.next_node_id
            if new_node_id in self._id_to_node:
                raise ValueError(f'Node index {new_node_id} already in use.')

            node.id = new_node_id
            self.next_node_id = max(node.id + 1, self.next_node_id)

            self.nodes.append(node)
            self._id_to_node[node.id] = node
            self._full_name_to_node[node.full_name] = node

    def remove_node(self, node: AttackGraphNode) -> None:
            """Remove node from attack graph
            Arguments:
            node    - the node we wish to remove from the attack graph
            """
            if logger.isEnabledFor(logging.DEBUG):
                # Avoid running json.dumps when not in debug
                logger.debug(f'Remove node "%s"(%d).', node.full_name, node.id)
            for child in node.children:
                child.parents.remove(node)
            for parent in node.parents:
                parent.children.remove(node)
            for attacker in list(node.compromised_by):
                attacker.undo_compromise(node)
            for attacker in self.attackers:
                if node in attacker.entry_points:
                    attacker.entry_points.remove(node)
            self.nodes.remove(node)

            if not isinstance(node.id, int):
                raise ValueError(f'Invalid node id.')
            del self._id_to_node[node.id]
            del self._full_name_to_node[node.full_name]

    def add_attacker(
                self,
                attacker: Attacker,
                attacker_id: Optional[int] = None,
                entry_points: list[int] = [],
                reached_attack_steps: list[int] = []
            ):
            """Add an attacker to the graph
            Arguments:
            attacker                - the attacker to add
            attacker_id             - the id to assign to this attacker, usually
                                      used when loading an attack graph from a
                                      file
            entry_points            - list of attack step ids that serve as entry
                                      points for the attacker
            reached_attack_steps    - list of ids of the attack steps that the
                                      attacker has reached
            """
            if logger.isEnabledFor(logging.DEBUG):
                # Avoid running json.dumps when not in debug
                if attacker_id is not None:
                    logger.debug('Add attacker "%s" with id:%d.',
                        attacker.name,
                        attacker_id)
                else:
                    logger.debug('Add attacker "%s" without id.',
                        attacker.name)


            attacker.id = attacker_id if attacker_id is not None \
                else self.next_attacker_id
            if attacker.id in self._id_to_attacker:
                raise ValueError(f'Attacker index {attacker_id} already in use.')

            self.next_attacker_id = max(attacker.id + 1, self.next_attacker_id)
            for node_id in reached_attack_steps:
                node = self.get_node_by_id(node_id)
                if node:
                    attacker.compromise(node)
                else:
                    msg = ("Could not find node with id %d"
                           "in reached attack steps.")
                    logger.error(msg, node_id)
                    raise AttackGraphException(msg % node_id)
            for node_id in entry_points:
                node = self.get_node_by_id(int(node_id))
                if node:
                    attacker.entry_points.append(node)
                else:
                    msg = ("Could not find node with id %d"
                           "in attacker entrypoints.")
                    logger.error(msg, node_id)
                    raise AttackGraphException(msg % node_id)
            self.attackers.append(attacker)
            self._id_to_attacker[attacker.id] = attacker

    def remove_attacker(self, attacker: Attacker):
            """Remove attacker from attack graph
            Arguments:
            attacker    - the attacker we wish to remove from the attack graph
            """
            if logger.isEnabledFor(logging.DEBUG):
                # Avoid running json.dumps when not in debug
                logger.debug('Remove attacker "%s" with id:%d.',
                    attacker.name,
                    attacker.id)
            for node in list(attacker.reached_attack_steps):
                attacker.undo_compromise(node)
            self.attackers.remove(attacker)
            if not isinstance(attacker.id, int):
                raise ValueError(f'Invalid attacker id.')
            del self._id_to_attacker[attacker.id]

    def regenerate_graph(self) -> None:
            """
            Regenerate the attack graph based on the original model instance and
            the MAL language specification provided at initialization.
            """

            self.nodes = []
            self.attackers = []
            self._id_to_node = {}
            self._full_name_to_node = {}
            self._id_to_attacker = {}
            self.next_node_id = 0
            self.next_attacker_id = 0
            self._generate_graph()

    def attach_attackers(self) -> None:
            """
            Create attackers and their entry point nodes and attach them to the
            relevant attack step nodes and to the attackers.
            """

            if not self.model:
                msg = "Can not attach attackers without a model"
                logger.error(msg)
                raise AttackGraphException(msg)

            logger.info(
                'Attach attackers from "%s" model to the graph.', self.model.name
            )

            for attacker_info in self.model.attackers:

                if not attacker_info.name:
                    msg = "Can not attach attacker without name"
                    logger.error(msg)
                    raise AttackGraphException(msg)

                attacker = Attacker(
                    name = attacker_info.name,
                    entry_points = [],
                    reached_attack_steps = []
                )
                self.add_attacker(attacker)

                for (asset, attack_steps) in attacker_info.entry_points:
                    for attack_step in attack_steps:
                        full_name = asset.name + ':' + attack_step
                        ag_node = self.get_node_by_full_name(full_name)
                        if not ag_node:
                            logger.warning(
                                'Failed to find attacker entry point '
                                '%s for %s.',
                                full_name, attacker.name
                            )
                            continue
                        attacker.compromise(ag_node)

                attacker.entry_points = list(attacker.reached_attack_steps)

    def _generate_graph(self) -> None:
            """
            Generate the attack graph based on the original model instance and the
            MAL language specification provided at initialization.
            """

            if not self.model:
                msg = "Can not generate AttackGraph without model"
                logger.error(msg)
                raise AttackGraphException(msg)

            # First, generate all of the nodes of the attack graph.
            for asset in self.model.assets:

                logger.debug(
                    'Generating attack steps for asset %s which is of class %s.',
                    asset.name, asset.type
                )

                attack_step_nodes = []

                # TODO probably part of what happens here is already done in lang_graph
                attack_steps = self.lang_graph._get_attacks_for_asset_type(asset.type)

                for attack_step_name, attack_step_attribs in attack_steps.items():
                    logger.debug(
                        'Generating attack step node for %s.', attack_step_name
                    )

                    defense_status = None
                    existence_status = None
                    node_name = asset.name + ':' + attack_step_name

                    match (attack_step_attribs['type']):
                        case 'defense':
                            # Set the defense status for defenses
                            defense_status = getattr(asset, attack_step_name)
                            logger.debug(
                                'Setting the defense status of %s to %s.',
                                node_name, defense_status
                            )

                        case 'exist' | 'notExist':
                            # Resolve step expression associated with (non-)existence
                            # attack steps.
                            (target_assets, attack_step) = _process_step_expression(
                                self.lang_graph,
                                self.model,
                                [asset],
                                attack_step_attribs['requires']['stepExpressions'][0])
                            # If the step expression resolution yielded the target
                            # assets then the required assets exist in the model.
                            existence_status = target_assets != []

                    mitre_info = attack_step_attribs['meta']['mitre'] if 'mitre' in\
                        attack_step_attribs['meta'] else None
                    ag_node = AttackGraphNode(
                        type = attack_step_attribs['type'],
                        asset = asset,
                        name = attack_step_name,
                        ttc = attack_step_attribs['ttc'],
                        children = [],
                        parents = [],
                        defense_status = defense_status,
                        existence_status = existence_status,
                        is_viable = True,
                        is_necessary = True,
                        mitre_info = mitre_info,
                        tags = attack_step_attribs['tags'],
                        compromised_by = []
                    )
                    ag_node.attributes = attack_step_attribs
                    attack_step_nodes.append(ag_node)
                    self.add_node(ag_node)
                asset.attack_step_nodes = attack_step_nodes

            # Then, link all of the nodes according to their associations.
            for ag_node in self.nodes:
                logger.debug(
                    'Determining children for attack step "%s"(%d)',
                    ag_node.full_name,
                    ag_node.id
                )
                step_expressions = \
                    ag_node.attributes['reaches']['stepExpressions'] if \
                        isinstance(ag_node.attributes, dict) and ag_node.attributes['reaches'] else []

                for step_expression in step_expressions:
                    # Resolve each of the attack step expressions listed for this
                    # attack step to determine children.
                    (target_assets, attack_step) = _process_step_expression(
                        self.lang_graph,
                        self.model,
                        [ag_node.asset],
                        step_expression)

                    for target in target_assets:
                        target_node_full_name = target.name + ':' + attack_step
                        target_node = self.get_node_by_full_name(
                            target_node_full_name
                        )
                        if not target_node:
                            msg = ('Failed to find target node '
                                   '"%s" to link with for attack step "%s"(%d)!')
                            logger.error(
                                msg,
                                target_node_full_name,
                                ag_node.full_name,
                                ag_node.id
                            )
                            raise AttackGraphStepExpressionError(
                                msg % (
                                    target_node_full_name,
                                    ag_node.full_name,
                                    ag_node.id
                                )
                            )
                        ag_node.children.append(target_node)
                        target_node.parents.append(ag_node)

    def get_node_by_id(self, node_id: int) -> Optional[AttackGraphNode]:
            """
            Return the attack node that matches the id provided.

            Arguments:
            node_id     - the id of the attack graph node we are looking for

            Return:
            The attack step node that matches the given id.
            """

            logger.debug('Looking up node with id %s', node_id)
            return self._id_to_node.get(node_id)

    def get_node_by_full_name(self, full_name: str) -> Optional[AttackGraphNode]:
            """
            Return the attack node that matches the full name provided.

            Arguments:
            full_name   - the full name of the attack graph node we are looking
                          for

            Return:
            The attack step node that matches the given full name.
            """

            logger.debug(f'Looking up node with full name "{full_name}"')
            return self._full_name_to_node.get(full_name)

    def get_attacker_by_id(self, attacker_id: int) -> Optional[Attacker]:
            """
            Return the attacker that matches the id provided.

            Arguments:
            attacker_id     - the id of the attacker we are looking for

            Return:
            The attacker that matches the given id.
            """

            logger.debug(f'Looking up attacker with id {attacker_id}')
            return self._id_to_attacker.get(attacker_id)


class Attacker:
    def compromise(self, node: AttackGraphNode) -> None:
            """
            Have the attacke compromise the node given as a parameter.

            Arguments:
            node    - the node that the attacker will compromise
            """

            logger.debug(
                'Attacker "%s"(%d) is compromising node "%s"(%d).',
                self.name,
                self.id,
                node.full_name,
                node.id
            )
            if node.is_compromised_by(self):
                logger.info(
                    'Attacker "%s"(%d) already compromised node "%s"(%d). '
                    'Do nothing.',
                    self.name,
                    self.id,
                    node.full_name,
                    node.id
                )
                return

            node.compromised_by.append(self)
            self.reached_attack_steps.append(node)

    def undo_compromise(self, node: AttackGraphNode) -> None:
            """
            Remove the attacker from the list of attackers that have compromised
            the node given as a parameter.

            Arguments:
            node    - the node that we wish to remove this attacker from.
            """

            logger.debug(
                'Removing attacker "%s"(%d) from compromised_by '
                'list of node "%s"(%d).',
                self.name,
                self.id,
                node.full_name,
                node.id
            )
            if not node.is_compromised_by(self):
                logger.info(
                    'Attacker "%s"(%d) had not compromised node "%s"(%d).'
                    ' Do nothing.',
                    self.name,
                    self.id,
                    node.full_name,
                    node.id
                )
                return

            node.compromised_by.remove(self)
            self.reached_attack_steps.remove(node)


class AttackGraphNode:
    @property
    def full_name(self) -> str:
            """
            Return the full name of the attack step. This is a combination of the
            asset name to which the attack step belongs and attack step name
            itself.
            """
            if self.asset:
                full_name = self.asset.name + ':' + self.name
            else:
                full_name = str(self.id) + ':' + self.name
            return full_name

    def is_compromised_by(self, attacker: Attacker) -> bool:
            """
            Return True if the attacker given as an argument has compromised this
            node.
            False, otherwise.

            Arguments:
            attacker    - the attacker we are interested in
            """
            return attacker in self.compromised_by

    def is_compromised(self) -> bool:
            """
            Return True if any attackers have compromised this node.
            False, otherwise.
            """
            return len(self.compromised_by) > 0

    def compromise(self, attacker: Attacker) -> None:
            """
            Have the attacker given as a parameter compromise this node.

            Arguments:
            attacker    - the attacker that will compromise the node
            """
            attacker.compromise(self)

    def undo_compromise(self, attacker: Attacker) -> None:
            """
            Remove the attacker given as a parameter from the list of attackers
            that have compromised this node.

            Arguments:
            attacker    - the attacker that we wish to remove from the compromised
                          list.
            """
            attacker.undo_compromise(self)


def _process_step_expression(
        lang_graph: LanguageGraph,
        model: Model,
        target_assets: list[Any],
        step_expression: dict[str, Any]
    ) -> tuple[list, Optional[str]]:
    """
    Recursively process an attack step expression.

    Arguments:
    lang_graph      - a language graph representing the MAL language
                      specification
    model           - a maltoolbox.model.Model instance from which the attack
                      graph was generated
    target_assets   - the list of assets that this step expression should apply
                      to. Initially it will contain the asset to which the
                      attack step belongs
    step_expression - a dictionary containing the step expression

    Return:
    A tuple pair containing a list of all of the target assets and the name of
    the attack step.
    """

    if logger.isEnabledFor(logging.DEBUG):
        # Avoid running json.dumps when not in debug
        logger.debug(
            'Processing Step Expression:\n%s',
            json.dumps(step_expression, indent = 2)
        )

    match (step_expression['type']):
        case 'attackStep':
            # The attack step expression just adds the name of the attack
            # step. All other step expressions only modify the target assets.
            return (target_assets, step_expression['name'])

        case 'union' | 'intersection' | 'difference':
            # The set operators are used to combine the left hand and right
            # hand targets accordingly.
            lh_targets, lh_attack_steps = _process_step_expression(
                lang_graph, model, target_assets, step_expression['lhs'])
            rh_targets, rh_attack_steps = _process_step_expression(
                lang_graph, model, target_assets, step_expression['rhs'])

            new_target_assets = []
            match (step_expression['type']):
                case 'union':
                    new_target_assets = lh_targets
                    for ag_node in rh_targets:
                        if next((lnode for lnode in new_target_assets \
                            if lnode.id == ag_node.id), None) is None:
                            new_target_assets.append(ag_node)

                case 'intersection':
                    for ag_node in rh_targets:
                        if next((lnode for lnode in lh_targets \
                            if lnode.id == ag_node.id), None):
                            new_target_assets.append(ag_node)

                case 'difference':
                    for ag_node in lh_targets:
                        if next((rnode for rnode in rh_targets \
                            if rnode.id == ag_node.id), None) is None:
                            new_target_assets.append(ag_node)

            return (new_target_assets, None)

        case 'variable':
            # Fetch the step expression associated with the variable from
            # the language specification and resolve that.
            for target_asset in target_assets:
                if (hasattr(target_asset, 'type')):
                    # TODO how can this info be accessed in the lang_graph
                    # directly without going through the private method?
                    variable_step_expr = lang_graph._get_variable_for_asset_type_by_name(
                        target_asset.type, step_expression['name'])
                    return _process_step_expression(
                        lang_graph, model, target_assets, variable_step_expr)

                else:
                    logger.error(
                        'Requested variable from non-asset target node:'
                        '%s which cannot be resolved.', target_asset
                    )
            return ([], None)

        case 'field':
            # Change the target assets from the current ones to the associated
            # assets given the specified field name.
            new_target_assets = []
            for target_asset in target_assets:
                new_target_assets.extend(model.\
                    get_associated_assets_by_field_name(target_asset,
                        step_expression['name']))
            return (new_target_assets, None)

        case 'transitive':
            # The transitive expression is very similar to the field
            # expression, but it proceeds recursively until no target is
            # found and it and it sets the new targets to the entire list
            # of assets identified during the entire transitive recursion.
            new_target_assets = []
            visited_ids = set()
            frontier = target_assets
            while frontier:
                next_frontier = []
                for target_asset in frontier:
                    for asset in model.get_associated_assets_by_field_name(
                            target_asset,
                            step_expression['stepExpression']['name']):
                        if asset.id not in visited_ids:
                            visited_ids.add(asset.id)
                            new_target_assets.append(asset)
                            next_frontier.append(asset)
                frontier = next_frontier
            return (new_target_assets, None)

        case 'subType':
            new_target_assets = []
            for target_asset in target_assets:
                (assets, _) = _process_step_expression(
                    lang_graph, model, target_assets,
                    step_expression['stepExpression'])
                new_target_assets.extend(assets)

            selected_new_target_assets = []
            for asset in new_target_assets:
                lang_graph_asset = lang_graph.get_asset_by_name(
                    asset.type
                )
                if not lang_graph_asset:
                    raise LookupError(
                        f'Failed to find asset \"{asset.type}\" in the '
                        'language graph.'
                    )
                lang_graph_subtype_asset = lang_graph.get_asset_by_name(
                    step_expression['subType']
                )
                if not lang_graph_subtype_asset:
                    raise LookupError(
                        'Failed to find asset '
                        f'\"{step_expression["subType"]}\" in the '
                        'language graph.'
                    )
                if lang_graph_asset.is_subasset_of(lang_graph_subtype_asset):
                    selected_new_target_assets.append(asset)

            return (selected_new_target_assets, None)

        case 'collect':
            # Apply the right hand step expression to left hand step
            # expression target assets.
            lh_targets, _ = _process_step_expression(
                lang_graph, model, target_assets, step_expression['lhs'])
            return _process_step_expression(lang_graph, model, lh_targets,
                step_expression['rhs'])


        case _:
            logger.error(
                'Unknown attack step type: %s', step_expression["type"]
            )
            return ([], None)


def create_attack_graph(
        lang_file: str,
        model_file: str,
        attach_attackers=True,
        calc_viability_and_necessity=True
    ) -> AttackGraph:
    """Create and return an attack graph

    Args:
    lang_file                       - path to language file (.mar or .mal)
    model_file                      - path to model file (yaml or json)
    attach_attackers                - whether to run attach_attackers or not
    calc_viability_and_necessity    - whether run apriori calculations or not
    """
    try:
        lang_graph = LanguageGraph.from_mar_archive(lang_file)
    except zipfile.BadZipFile:
        lang_graph = LanguageGraph.from_mal_spec(lang_file)

    if log_configs['langspec_file']:
        lang_graph.save_to_file(log_configs['langspec_file'])

    lang_classes_factory = LanguageClassesFactory(lang_graph)
    instance_model = Model.load_from_file(model_file, lang_classes_factory)

    if log_configs['model_file']:
        instance_model.save_to_file(log_configs['model_file'])

    try:
        attack_graph = AttackGraph(lang_graph, instance_model)
    except AttackGraphStepExpressionError:
        logger.error(
            'Attack graph generation failed when attempting '
            'to resolve attack step expression!'
        )
        sys.exit(1)

    if attach_attackers:
        attack_graph.attach_attackers()

    if calc_viability_and_necessity:
        calculate_viability_and_necessity(attack_graph)

    return attack_graph


class Model:
    def add_asset(
                self,
                asset: SchemaGeneratedClass,
                asset_id: Optional[int] = None,
                allow_duplicate_names: bool = True
            ) -> None:
            """Add an asset to the model.

            Arguments:
            asset                   - the asset to add to the model
            asset_id                - the id to assign to this asset, usually
                                      from an instance model file
            allow_duplicate_name    - allow duplicate names to be used. If allowed
                                      and a duplicate is encountered the name will
                                      be appended with the id.

            Return:
            An asset matching the name if it exists in the model.
            """

            # Set asset ID and check for duplicates
            asset.id = asset_id if asset_id is not None else self.next_id
            if asset.id in self.asset_ids:
                raise ValueError(f'Asset index {asset_id} already in use.')

            asset.associations = []

            if not hasattr(asset, 'name'):
                asset.name = asset.type + ':' + str(asset.id)
            else:
                if asset.name in self.asset_names:
                    if allow_duplicate_names:
                        asset.name = asset.name + ':' + str(asset.id)
                    else:
                        raise ValueError(
                            f'Asset name {asset.name} is a duplicate'
                            ' and we do not allow duplicates.'
                        )
            while asset.name in self.asset_names:
                # The generated name may itself be taken, keep it unique
                asset.name = asset.name + ':' + str(asset.id)

            # All checks passed, reserve the id and the name
            self.asset_ids.add(asset.id)
            self.next_id = max(asset.id + 1, self.next_id)
            self.asset_names.add(asset.name)

            # Optional field for extra asset data
            if not hasattr(asset, 'extras'):
                asset.extras = {}

            logger.debug(
                'Add "%s"(%d) to model "%s".', asset.name, asset.id, self.name
            )
            self.assets.append(asset)

    def remove_asset(self, asset: SchemaGeneratedClass) -> None:
            """Remove an asset from the model.

            Arguments:
            asset     - the asset to remove
            """

            logger.debug(
                'Remove "%s"(%d) from model "%s".',
                asset.name, asset.id, self.name
            )
            if asset not in self.assets:
                raise LookupError(
                    f'Asset "{asset.name}"({asset.id}) is not part'
                    f' of model"{self.name}".'
                )

            # First remove all of the associations. A reflexive association is
            # listed once per field the asset is in, handle each only once.
            associations = []
            for association in asset.associations:
                if association not in associations:
                    associations.append(association)
            for association in associations:
                self.remove_asset_from_association(asset, association)

            # Also remove all of the entry points
            for attacker in self.attackers:
                entry_point_tuple = attacker.get_entry_point_tuple(asset)
                if entry_point_tuple:
                    attacker.entry_points.remove(entry_point_tuple)

            self.assets.remove(asset)
            self.asset_ids.remove(asset.id)
            self.asset_names.remove(asset.name)

    def remove_asset_from_association(
                self,
                asset: SchemaGeneratedClass,
                association: SchemaGeneratedClass
            ) -> None:
            """Remove an asset from an association and remove the association
            if any of the two sides is now empty.

            Arguments:
            asset           - the asset to remove from the given association
            association     - the association to remove the asset from
            """

            logger.debug(
                'Remove "%s"(%d) from association of type "%s".',
                asset.name, asset.id, type(association)
            )

            if asset not in self.assets:
                raise LookupError(
                    f'Asset "{asset.name}"({asset.id}) is not part of model '
                    f'"{self.name}".'
                )
            if association not in self.associations:
                raise LookupError(
                    f'Association is not part of model "{self.name}".'
                )

            left_field_name, right_field_name = \
                self.get_association_field_names(association)
            left_field = getattr(association, left_field_name)
            right_field = getattr(association, right_field_name)
            found = False
            for field in [left_field, right_field]:
                if asset in field:
                    found = True
                    if len(field) == 1:
                        # There are no other assets on this side,
                        # so we should remove the entire association.
                        self.remove_association(association)
                        return
                    field.remove(asset)
                    assocs = list(asset.associations)
                    assocs.remove(association)
                    asset.associations = assocs

            if not found:
                raise LookupError(f'Asset "{asset.name}"({asset.id}) is not '
                    'part of the association provided.')

    def remove_association(self, association: SchemaGeneratedClass) -> None:
            """Remove an association from the model.

            Arguments:
            association     - the association to remove from the model
            """

            if association not in self.associations:
                raise LookupError(
                    f'Association is not part of model "{self.name}".'
                )

            left_field_name, right_field_name = \
                self.get_association_field_names(association)
            left_field = getattr(association, left_field_name)
            right_field = getattr(association, right_field_name)

            for asset in left_field:
                assocs = list(asset.associations)
                assocs.remove(association)
                asset.associations = assocs

            for asset in right_field:
                # In fringe cases we may have reflexive associations where the
                # association was already removed when processing the left field
                # assets therefore we have to check if it is still in the list.
                if association in asset.associations:
                    assocs = list(asset.associations)
                    assocs.remove(association)
                    asset.associations = assocs

            self.associations.remove(association)

            # Remove association from type->association mapping
            association_type = association.__class__.__name__
            self._type_to_association[association_type].remove(
                association
            )
            # Remove type from type->association mapping if mapping empty
            if len(self._type_to_association[association_type]) == 0:
                del self._type_to_association[association_type]

    def add_attacker(
                self,
                attacker: AttackerAttachment,
                attacker_id: Optional[int] = None
            ) -> None:
            """Add an attacker to the model.

            Arguments:
            attacker        - the attacker to add
            attacker_id     - optional id for the attacker
            """

            if attacker_id is not None:
                attacker.id = attacker_id
            else:
                attacker.id = self.next_id
            self.next_id = max(attacker.id + 1, self.next_id)

            if not hasattr(attacker, 'name') or not attacker.name:
                attacker.name = 'Attacker:' + str(attacker.id)
            self.attackers.append(attacker)

    def remove_attacker(self, attacker: AttackerAttachment) -> None:
            """Remove attacker"""
            self.attackers.remove(attacker)

    def get_asset_by_id(
                self, asset_id: int
            ) -> Optional[SchemaGeneratedClass]:
            """
            Find an asset in the model based on its id.

            Arguments:
            asset_id        - the id of the asset we are looking for

            Return:
            An asset matching the id if it exists in the model.
            """
            logger.debug(
                'Get asset with id %d from model "%s".',
                asset_id, self.name
            )
            return next(
                    (asset for asset in self.assets
                    if asset.id == asset_id), None
                 )

    def get_asset_by_name(
                self, asset_name: str
            ) -> Optional[SchemaGeneratedClass]:
            """
            Find an asset in the model based on its name.

            Arguments:
            asset_name        - the name of the asset we are looking for

            Return:
            An asset matching the name if it exists in the model.
            """
            logger.debug(
                'Get asset with name "%s" from model "%s".',
                asset_name, self.name
            )
            return next(
                    (asset for asset in self.assets
                    if asset.name == asset_name), None
                 )

    def get_attacker_by_id(
                self, attacker_id: int
            ) -> Optional[AttackerAttachment]:
            """
            Find an attacker in the model based on its id.

            Arguments:
            attacker_id     - the id of the attacker we are looking for

            Return:
            An attacker matching the id if it exists in the model.
            """
            logger.debug(
                'Get attacker with id %d from model "%s".',
                attacker_id, self.name
            )
            return next(
                    (attacker for attacker in self.attackers
                    if attacker.id == attacker_id), None
                )

    def association_exists_between_assets(
                self,
                association_type: str,
                left_asset: SchemaGeneratedClass,
                right_asset: SchemaGeneratedClass
            ):
            """Return True if the association already exists between the assets"""
            logger.debug(
                'Check to see if an association of type "%s" '
                'already exists between "%s" and "%s".',
                association_type, left_asset.name, right_asset.name
            )
            associations = self._type_to_association.get(association_type, [])
            for association in associations:
                left_field_name, right_field_name = \
                    self.get_association_field_names(association)
                if (left_asset.id in [asset.id for asset in \
                        getattr(association, left_field_name)] and \
                    right_asset.id in [asset.id for asset in \
                        getattr(association, right_field_name)]):
                        logger.debug(
                            'An association of type "%s" '
                            'already exists between "%s" and "%s".',
                            association_type, left_asset.name, right_asset.name
                        )
                        return True
            logger.debug(
                'No association of type "%s" '
                'exists between "%s" and "%s".',
                association_type, left_asset.name, right_asset.name
            )
            return False

    def get_associated_assets_by_field_name(
                self,
                asset: SchemaGeneratedClass,
                field_name: str
            ) -> list[SchemaGeneratedClass]:
            """
            Get a list of associated assets for an asset given a field name.

            Arguments:
            asset           - the asset whose fields we are interested in
            field_name      - the field name we are looking for

            Return:
            A list of assets associated with the asset given that match the
            field_name.
            """

            logger.debug(
                'Get associated assets for asset "%s"(%d) by field name %s.',
                asset.name, asset.id, field_name
            )
            associated_assets = []
            for association in asset.associations:
                # Determine which two of the fields matches the asset given.
                # The other field will provide the associated assets.
                left_field_name, right_field_name = \
                    self.get_association_field_names(association)

                if right_field_name == field_name and \
                        asset in getattr(association, left_field_name):
                    associated_assets.extend(
                        getattr(association, right_field_name)
                    )
                if left_field_name == field_name and \
                        asset in getattr(association, right_field_name):
                    associated_assets.extend(
                        getattr(association, left_field_name)
                    )

            return associated_assets

    def get_asset_defenses(
                self,
                asset: SchemaGeneratedClass,
                include_defaults: bool = False
            ):
            """
            Get the two field names of the association as a list.
            Arguments:
            asset               - the asset to fetch the defenses for
            include_defaults    - if not True the defenses that have default
                                  values will not be included in the list

            Return:
            A dictionary containing the defenses of the asset
            """

            defenses = {}
            for key, value in asset._properties.items():
                property_schema = (
                    self.lang_classes_factory.json_schema['definitions']['LanguageAsset']
                    ['definitions'][asset.type]['properties'][key]
                )

                if "maximum" not in property_schema:
                    # Check if property is a defense by looking up defense
                    # specific key. Skip if it is not a defense.
                    continue

                logger.debug(
                    'Translating %s: %s defense to dictionary.',
                    key,
                    value
                )

                if not include_defaults and value == value.default():
                    # Skip the defense values if they are the default ones.
                    continue

                defenses[key] = float(value)

            return defenses


class AttackerAttachment:
    def get_entry_point_tuple(
                self,
                asset: SchemaGeneratedClass
            ) -> Optional[tuple[SchemaGeneratedClass, list[str]]]:
            """Return an entry point tuple of an AttackerAttachment matching the
            asset provided.


            Arguments:
            asset           - the asset to add entry point to

            Return:
            The entry point tuple containing the asset and the list of attack
            steps if the asset has any entry points defined for this attacker
            attachemnt.
            None, otherwise.
            """
            return next((ep_tuple for ep_tuple in self.entry_points
                                     if ep_tuple[0] == asset), None)

    def add_entry_point(
                self, asset: SchemaGeneratedClass, attackstep_name: str):
            """Add an entry point to an AttackerAttachment

            self.entry_points contain tuples, first element of each tuple
            is an asset, second element is a list of attack step names that
            are entry points for the attacker.

            Arguments:
            asset           - the asset to add the entry point to
            attackstep_name - the name of the attack step to add as an entry point
            """

            logger.debug(
                f'Add entry point "{attackstep_name}" on asset "{asset.name}" '
                f'to AttackerAttachment "{self.name}".'
            )

            # Get the entry point tuple for the asset if it already exists
            entry_point_tuple = self.get_entry_point_tuple(asset)

            if entry_point_tuple:
                if attackstep_name not in entry_point_tuple[1]:
                    # If it exists and does not already have the attack step,
                    # add it
                    entry_point_tuple[1].append(attackstep_name)
                else:
                    logger.info(
                        f'Entry point "{attackstep_name}" on asset "{asset.name}"'
                        f' already existed for AttackerAttachment "{self.name}".'
                    )
            else:
                # Otherwise, create the entry point tuple and the initial entry
                # point
                self.entry_points.append((asset, [attackstep_name]))

    def remove_entry_point(
                self, asset: SchemaGeneratedClass, attackstep_name: str):
            """Remove an entry point from an AttackerAttachment if it exists

            Arguments:
            asset           - the asset to remove the entry point from
            """

            logger.debug(
                f'Remove entry point "{attackstep_name}" on asset "{asset.name}" '
                f'from AttackerAttachment "{self.name}".'
            )

            # Get the entry point tuple for the asset if it exists
            entry_point_tuple = self.get_entry_point_tuple(asset)

            if entry_point_tuple:
                if attackstep_name in entry_point_tuple[1]:
                    # If it exists and not already has the attack step, add it
                    entry_point_tuple[1].remove(attackstep_name)
                else:
                    logger.warning(
                        f'Failed to find entry point "{attackstep_name}" on '
                        f'asset "{asset.name}" for AttackerAttachment '
                        f'"{self.name}". Nothing to remove.'
                    )

                if not entry_point_tuple[1]:
                    self.entry_points.remove(entry_point_tuple)
            else:
                logger.warning(
                    f'Failed to find entry points on asset "{asset.name}" '
                    f'for AttackerAttachment "{self.name}". Nothing to remove.'
                )


class LanguageGraphAsset:
    def is_subasset_of(self, target_asset: LanguageGraphAsset) -> bool:
            """
            Check if an asset extends the target asset through inheritance.

            Arguments:
            target_asset    - the target asset we wish to evaluate if this asset
                              extends

            Return:
            True if this asset extends the target_asset via inheritance.
            False otherwise.
            """
            current_assets = [self]
            while (current_assets):
                current_asset = current_assets.pop()
                if current_asset == target_asset:
                    return True
                current_assets.extend(current_asset.super_assets)
            return False

    def get_all_subassets(self) -> list[LanguageGraphAsset]:
            """
            Return a list of all of the assets that directly or indirectly extend
            this asset.

            Return:
            A list of all of the assets that extend this asset plus itself.
            """
            current_assets = [self]
            subassets = [self]
            while (current_assets):
                current_asset = current_assets.pop()
                current_assets.extend(current_asset.sub_assets)
                subassets.extend(current_asset.sub_assets)
            return subassets

    def get_all_superassets(self) -> list[LanguageGraphAsset]:
            """
            Return a list of all of the assets that this asset directly or
            indirectly extends.

            Return:
            A list of all of the assets that this asset extends plus itself.
            """
            current_assets = [self]
            superassets = [self]
            while (current_assets):
                current_asset = current_assets.pop()
                current_assets.extend(current_asset.super_assets)
                superassets.extend(current_asset.super_assets)
            return superassets

    def get_all_common_superassets(
                self, other: LanguageGraphAsset
            ) -> set[Optional[str]]:
            """Return a set of all common ancestors between this asset
            and the other asset given as parameter"""
            self_superassets = set(
                asset.name for asset in self.get_all_superassets()
            )
            other_superassets = set(
                asset.name for asset in other.get_all_superassets()
            )
            return self_superassets.intersection(other_superassets)


class LanguageGraphAssociation:
    def contains_fieldname(self, fieldname: str) -> bool:
            """
            Check if the association contains the field name given as a parameter.

            Arguments:
            fieldname   - the field name to look for
            Return True if either of the two field names matches.
            False, otherwise.
            """
            if self.left_field.fieldname == fieldname:
                return True
            if self.right_field.fieldname == fieldname:
                return True
            return False

    def contains_asset(self, asset: Any) -> bool:
            """
            Check if the association matches the asset given as a parameter. A
            match can either be an explicit one or if the asset given subassets
            either of the two assets that are part of the association.

            Arguments:
            asset       - the asset to look for
            Return True if either of the two asset matches.
            False, otherwise.
            """
            if asset.is_subasset_of(self.left_field.asset):
                return True
            if asset.is_subasset_of(self.right_field.asset):
                return True
            return False

    def get_opposite_fieldname(self, fieldname: str) -> str:
            """
            Return the opposite field name if the association contains the field
            name given as a parameter.

            Arguments:
            fieldname   - the field name to look for
            Return the other field name if the parameter matched either of the
            two. None, otherwise.
            """
            if self.left_field.fieldname == fieldname:
                return self.right_field.fieldname
            if self.right_field.fieldname == fieldname:
                return self.left_field.fieldname

            msg = ('Requested fieldname "%s" from association '
                   '%s which did not contain it!')
            logger.error(msg, fieldname, self.name)
            raise LanguageGraphAssociationError(msg % (fieldname, self.name))

    def get_opposite_asset(
                self, asset: LanguageGraphAsset
            ) -> Optional[LanguageGraphAsset]:
            """
            Return the opposite asset if the association matches the asset given
            as a parameter. A match can either be an explicit one or if the asset
            given subassets either of the two assets that are part of the
            association.

            Arguments:
            asset       - the asset to look for
            Return the other asset if the parameter matched either of the
            two. None, otherwise.
            """
            #TODO Should check to see which one is the tightest fit for
            #     associations between assets on different levels of the same
            #     inheritance chain.
            if asset.is_subasset_of(self.left_field.asset):
                return self.right_field.asset
            if asset.is_subasset_of(self.right_field.asset):
                return self.left_field.asset

            logger.warning(
                'Requested asset "%s" from association %s'
                'which did not contain it!', asset.name, self.name
            )
            return None


class LanguageGraph:
    def process_step_expression(self,
                lang: dict,
                target_asset,
                dep_chain,
                step_expression: dict
            ) -> tuple:
            """
            Recursively process an attack step expression.

            Arguments:
            lang                - A dictionary representing the MAL language
                                  specification.
            target_asset        - The asset type that this step expression should
                                  apply to. Initially it will contain the asset
                                  type to which the attack step belongs.
            dep_chain           - A dependency chain of linked of associations and
                                  set operations from the attack step to its
                                  parent attack step.
                                  Note: This was done for the parent attack step
                                  because it was easier to construct recursively
                                  given the left-hand first expansion of the
                                  current MAL language specification.
            step_expression     - A dictionary containing the step expression.

            Return:
            A tuple triplet containing the target asset, the resulting parent
            associations chain, and the name of the attack step.
            """

            if logger.isEnabledFor(logging.DEBUG):
                # Avoid running json.dumps when not in debug
                logger.debug(
                    'Processing Step Expression:\n%s',
                    json.dumps(step_expression, indent = 2)
                )

            match (step_expression['type']):
                case 'attackStep':
                    # The attack step expression just adds the name of the attack
                    # step. All other step expressions only modify the target
                    # asset and parent associations chain.
                    return (target_asset,
                        dep_chain,
                        step_expression['name'])

                case 'union' | 'intersection' | 'difference':
                    # The set operators are used to combine the left hand and right
                    # hand targets accordingly.
                    lh_target_asset, lh_dep_chain, _ = self.process_step_expression(
                        lang, target_asset, dep_chain, step_expression['lhs'])
                    rh_target_asset, rh_dep_chain, _ = self.process_step_expression(
                        lang, target_asset, dep_chain, step_expression['rhs'])

                    if not lh_target_asset.get_all_common_superassets(rh_target_asset):
                        logger.error(
                            "Set operation attempted between targets that"
                            " do not share any common superassets: %s and %s!",
                            lh_target_asset.name, rh_target_asset.name
                        )
                        return (None, None, None)

                    new_dep_chain = DependencyChain(
                        type = step_expression['type'],
                        next_link = None)
                    new_dep_chain.left_chain = lh_dep_chain
                    new_dep_chain.right_chain = rh_dep_chain
                    return (lh_target_asset,
                        new_dep_chain,
                        None)

                case 'variable':
                    # Fetch the step expression associated with the variable from
                    # the language specification and resolve that.
                    variable_step_expr = self._get_variable_for_asset_type_by_name(
                        target_asset.name, step_expression['name'])
                    if variable_step_expr:
                        return self.process_step_expression(
                            lang,
                            target_asset,
                            dep_chain,
                            variable_step_expr)

                    else:
                        logger.error(
                            'Failed to find variable %s for %s',
                            step_expression["name"], target_asset.name
                        )
                        return (None, None, None)

                case 'field':
                    # Change the target asset from the current one to the associated
                    # asset given the specified field name and add the parent
                    # fieldname and association to the parent associations chain.
                    fieldname = step_expression['name']
                    if not target_asset:
                        logger.error(
                            'Missing target asset for field "%s"!', fieldname
                        )
                        return (None, None, None)

                    new_target_asset = None
                    for association in target_asset.associations:
                        if (association.left_field.fieldname == fieldname and \
                            target_asset.is_subasset_of(
                                association.right_field.asset)):
                            new_target_asset = association.left_field.asset

                        if (association.right_field.fieldname == fieldname and \
                            target_asset.is_subasset_of(
                                association.left_field.asset)):
                            new_target_asset = association.right_field.asset

                        if new_target_asset:
                            new_dep_chain = DependencyChain(
                                type = 'field',
                                next_link = dep_chain)
                            new_dep_chain.fieldname = \
                                association.get_opposite_fieldname(fieldname)
                            new_dep_chain.association = association
                            return (new_target_asset,
                                new_dep_chain,
                                None)
                    logger.error(
                        'Failed to find field "%s" on asset "%s"!',
                        fieldname, target_asset.name
                    )
                    return (None, None, None)

                case 'transitive':
                    # Create a transitive tuple entry that applies to the next
                    # component of the step expression.
                    result_target_asset, \
                    result_dep_chain, \
                    attack_step = \
                        self.process_step_expression(lang,
                            target_asset,
                            dep_chain,
                            step_expression['stepExpression'])
                    new_dep_chain = DependencyChain(
                        type = 'transitive',
                        next_link = result_dep_chain)
                    return (result_target_asset,
                        new_dep_chain,
                        attack_step)

                case 'subType':
                    # Create a subType tuple entry that applies to the next
                    # component of the step expression and changes the target
                    # asset to the subasset.
                    subtype_name = step_expression['subType']
                    result_target_asset, \
                    result_dep_chain, \
                    attack_step = \
                        self.process_step_expression(lang,
                            target_asset,
                            dep_chain,
                            step_expression['stepExpression'])

                    subtype_asset = next((asset for asset in self.assets if asset.name == subtype_name), None)

                    if not subtype_asset:
                        msg = 'Failed to find subtype attackstep "{subtype_name}"'
                        logger.error(msg)
                        raise LanguageGraphException(msg)

                    if not subtype_asset.is_subasset_of(result_target_asset):
                        logger.error(
                            'Found subtype "%s" which does not extend "%s", '
                            'therefore the subtype cannot be resolved.',
                            subtype_name, result_target_asset.name
                        )
                        return (None, None, None)

                    new_dep_chain = DependencyChain(
                        type = 'subType',
                        next_link = result_dep_chain)
                    new_dep_chain.subtype = subtype_asset
                    return (subtype_asset,
                        new_dep_chain,
                        attack_step)

                case 'collect':
                    # Apply the right hand step expression to left hand step
                    # expression target asset and parent associations chain.
                    (lh_target_asset, lh_dep_chain, _) = \
                        self.process_step_expression(lang,
                            target_asset,
                            dep_chain,
                            step_expression['lhs'])
                    (rh_target_asset,
                        rh_dep_chain,
                        rh_attack_step_name) = \
                        self.process_step_expression(lang,
                            lh_target_asset,
                            lh_dep_chain,
                            step_expression['rhs'])
                    return (rh_target_asset, rh_dep_chain,
                        rh_attack_step_name)

                case _:
                    logger.error(
                        'Unknown attack step type: "%s"', step_expression["type"]
                    )
                    return (None, None, None)

    def reverse_dep_chain(
                self,
                dep_chain: Optional[DependencyChain],
                reverse_chain: Optional[DependencyChain]
            ) -> Optional[DependencyChain]:
            """
            Recursively reverse the associations chain. From parent to child or
            vice versa.

            Arguments:
            dep_chain  - A chain of nested tuples that specify the
                                  associations and set operations chain from an
                                  attack step to its connected attack step.
            reverse_chain       - A chain of nested tuples that represents the
                                  current reversed associations chain.

            Return:
            The resulting reversed associations chain.
            """
            if not dep_chain:
                return reverse_chain
            else:
                match (dep_chain.type):
                    case 'union' | 'intersection' | 'difference':
                        left_reverse_chain = \
                            self.reverse_dep_chain(dep_chain.left_chain,
                            reverse_chain)
                        right_reverse_chain = \
                            self.reverse_dep_chain(dep_chain.right_chain,
                            reverse_chain)
                        new_dep_chain = DependencyChain(
                            type = dep_chain.type,
                            next_link = None)
                        new_dep_chain.left_chain = left_reverse_chain
                        new_dep_chain.right_chain = right_reverse_chain
                        return new_dep_chain

                    case 'transitive':
                        result_reverse_chain = self.reverse_dep_chain(
                            dep_chain.next_link, reverse_chain)
                        new_dep_chain = DependencyChain(
                            type = 'transitive',
                            next_link = result_reverse_chain)
                        return new_dep_chain

                    case 'field':
                        association = dep_chain.association

                        if not association:
                            raise LanguageGraphException(
                                "Missing association for dep chain"
                            )

                        opposite_fieldname = association.get_opposite_fieldname(
                            dep_chain.fieldname)
                        new_dep_chain = DependencyChain(
                            type = 'field',
                            next_link = reverse_chain
                        )
                        new_dep_chain.fieldname = opposite_fieldname
                        new_dep_chain.association = association
                        return self.reverse_dep_chain(
                                    dep_chain.next_link,
                                    new_dep_chain
                                )

                    case 'subType':
                        result_reverse_chain = self.reverse_dep_chain(
                            dep_chain.next_link,
                            reverse_chain
                        )
                        new_dep_chain = DependencyChain(
                            type = 'subType',
                            next_link = result_reverse_chain
                        )
                        new_dep_chain.subtype = dep_chain.subtype
                        return new_dep_chain
                        # return reverse_chain

                    case _:
                        msg = 'Unknown assoc chain element "%s"'
                        logger.error(msg, dep_chain.type)
                        raise LanguageGraphAssociationError(msg % dep_chain.type)

    def _generate_graph(self) -> None:
            """
            Generate language graph starting from the MAL language specification
            given in the constructor.
            """
            # Generate all of the asset nodes of the language graph.
            for asset in self._lang_spec['assets']:
                logger.debug(
                    'Create asset language graph nodes for asset %s',
                    asset["name"]
                )
                asset_node = LanguageGraphAsset(
                    name = asset['name'],
                    associations = [],
                    attack_steps = [],
                    description = asset['meta'],
                    super_assets = [],
                    sub_assets = [],
                    is_abstract = asset['isAbstract']
                )
                self.assets.append(asset_node)

            # Link assets based on inheritance
            for asset_info in self._lang_spec['assets']:
                asset = next((asset for asset in self.assets \
                    if asset.name == asset_info['name']), None)
                if asset_info['superAsset']:
                    super_asset = next((asset for asset in self.assets \
                        if asset.name == asset_info['superAsset']), None)
                    if not super_asset:
                        msg = 'Failed to find super asset "%s" for asset "%s"!'
                        logger.error(
                            msg, asset_info["superAsset"], asset_info["name"])
                        raise LanguageGraphSuperAssetNotFoundError(
                            msg % (asset_info["superAsset"], asset_info["name"]))

                    super_asset.sub_assets.append(asset)
                    asset.super_assets.append(super_asset)

            # Generate all of the association nodes of the language graph.
            for asset in self.assets:
                logger.debug(
                    'Create association language graph nodes for asset %s',
                    asset.name
                )

                associations = self._get_associations_for_asset_type(asset.name)
                for association in associations:
                    left_asset = next((asset for asset in self.assets \
                        if asset.name == association['leftAsset']), None)
                    if not left_asset:
                        msg = 'Left asset "%s" for association "%s" not found!'
                        logger.error(
                            msg, association["leftAsset"], association["name"])
                        raise LanguageGraphAssociationError(
                            msg % (association["leftAsset"], association["name"]))

                    right_asset = next((asset for asset in self.assets \
                        if asset.name == association['rightAsset']), None)
                    if not right_asset:
                        msg = 'Right asset "%s" for association "%s" not found!'
                        logger.error(
                            msg, association["rightAsset"], association["name"])
                        raise LanguageGraphAssociationError(
                            msg % (association["rightAsset"], association["name"])
                        )

                    # Technically we should be more exhaustive and check the
                    # flipped version too and all of the fieldnames as well.
                    assoc_node = next((assoc for assoc in self.associations \
                        if assoc.name == association['name'] and
                            assoc.left_field.asset == left_asset and
                            assoc.right_field.asset == right_asset),
                            None)
                    if assoc_node:
                        # The association was already created, skip it
                        continue

                    assoc_node = LanguageGraphAssociation(
                        name = association['name'],
                        left_field = LanguageGraphAssociationField(
                            left_asset,
                            association['leftField'],
                            association['leftMultiplicity']['min'],
                            association['leftMultiplicity']['max']),
                        right_field = LanguageGraphAssociationField(
                            right_asset,
                            association['rightField'],
                            association['rightMultiplicity']['min'],
                            association['rightMultiplicity']['max']),
                        description = association['meta']
                    )

                    # Add the association to the left and right asset and all of
                    # the assets that inherit them
                    associated_assets = [left_asset, right_asset]
                    while associated_assets != []:
                        asset = associated_assets.pop()
                        associated_assets.extend(asset.sub_assets)
                        if assoc_node not in asset.associations:
                            asset.associations.append(assoc_node)

                    self.associations.append(assoc_node)

            # Generate all of the attack step nodes of the language graph.
            for asset in self.assets:
                logger.debug(
                    'Create attack steps language graph nodes for asset %s',
                    asset.name
                )
                attack_steps = self._get_attacks_for_asset_type(asset.name)
                for attack_step_name, attack_step_attribs in attack_steps.items():
                    logger.debug(
                        'Create attack step language graph nodes for %s',
                        attack_step_name
                    )

                    attack_step_node = LanguageGraphAttackStep(
                        name = attack_step_name,
                        type = attack_step_attribs['type'],
                        asset = asset,
                        ttc = attack_step_attribs['ttc'],
                        children = {},
                        parents = {},
                        description = attack_step_attribs['meta']
                    )
                    attack_step_node.attributes = attack_step_attribs
                    asset.attack_steps.append(attack_step_node)
                    self.attack_steps.append(attack_step_node)

            # Then, link all of the attack step nodes according to their associations.
            for attack_step in self.attack_steps:
                logger.debug(
                    'Determining children for attack step %s',
                    attack_step.name
                )
                step_expressions = \
                    attack_step.attributes['reaches']['stepExpressions'] if \
                        attack_step.attributes['reaches'] else []

                for step_expression in step_expressions:
                    # Resolve each of the attack step expressions listed for this
                    # attack step to determine children.
                    (target_asset, dep_chain, attack_step_name) = \
                        self.process_step_expression(self._lang_spec,
                            attack_step.asset,
                            None,
                            step_expression)
                    if not target_asset:
                        msg = 'Failed to find target asset to link with for ' \
                            'step expression:\n%s'
                        raise LanguageGraphStepExpressionError(
                            msg % json.dumps(step_expression, indent = 2)
                        )

                    target_attack_step = next((attack_step \
                        for attack_step in target_asset.attack_steps \
                            if attack_step.name == attack_step_name), None)

                    if not target_attack_step:
                        msg = 'Failed to find target attack step %s on %s to ' \
                              'link with for step expression:\n%s'
                        raise LanguageGraphStepExpressionError(
                            msg % (
                                attack_step_name,
                                target_asset.name,
                                json.dumps(step_expression, indent = 2)
                            )
                        )

                    # It is easier to create the parent associations chain due to
                    # the left-hand first progression.
                    if attack_step.name in target_attack_step.parents:
                        target_attack_step.parents[attack_step.name].append(
                            (attack_step, dep_chain))
                    else:
                        target_attack_step.parents[attack_step.name] = \
                            [(attack_step, dep_chain)]
                    # Reverse the parent associations chain to get the child
                    # associations chain.
                    if target_attack_step.name in attack_step.children:
                        attack_step.children[target_attack_step.name].append(
                            (target_attack_step,
                            self.reverse_dep_chain(dep_chain,
                                None)))
                    else:
                        attack_step.children[target_attack_step.name] = \
                            [(target_attack_step,
                            self.reverse_dep_chain(dep_chain,
                                None))]

    def get_asset_by_name(
                self,
                asset_name
        ) -> Optional[LanguageGraphAsset]:
            """
            Get an asset based on its name

            Arguments:
            asset_name  - a string containing the asset name

            Return:
            The asset matching the name.
            None if there is no match.
            """
            for asset in self.assets:
                if asset.name == asset_name:
                    return asset

            return None

    def get_association_by_fields_and_assets(
                self,
                first_field: str,
                second_field: str,
                first_asset_name: str,
                second_asset_name: str
            ) -> Optional[LanguageGraphAssociation]:
            """
            Get an association based on its field names and asset types

            Arguments:
            first_field         - a string containing the first field
            second_field        - a string containing the second field
            first_asset_name    - a string representing the first asset type
            second_asset_name   - a string representing the second asset type

            Return:
            The association matching the fieldnames and asset types.
            None if there is no match.
            """
            first_asset = self.get_asset_by_name(first_asset_name)
            if first_asset is None:
                raise LookupError(
                    f'Failed to find asset with name \"{first_asset_name}\" in '
                    'the language graph.'
                )

            second_asset = self.get_asset_by_name(second_asset_name)
            if second_asset is None:
                raise LookupError(
                    f'Failed to find asset with name \"{second_asset_name}\" in '
                    'the language graph.'
                )

            for assoc in self.associations:
                logger.debug(
                    'Compare ("%s", "%s", "%s", "%s") to ("%s", "%s", "%s", "%s").',
                    first_asset_name, first_field,
                    second_asset_name, second_field,
                    assoc.left_field.asset.name, assoc.left_field.fieldname,
                    assoc.right_field.asset.name, assoc.right_field.fieldname
                )

                # If the asset and fields match either way we accept it as a match.
                if assoc.left_field.fieldname == first_field and \
                    assoc.right_field.fieldname == second_field and \
                    first_asset.is_subasset_of(assoc.left_field.asset) and \
                    second_asset.is_subasset_of(assoc.right_field.asset):
                    return assoc

                if assoc.left_field.fieldname == second_field and \
                    assoc.right_field.fieldname == first_field and \
                    second_asset.is_subasset_of(assoc.left_field.asset) and \
                    first_asset.is_subasset_of(assoc.right_field.asset):
                    return assoc

            return None

    def _get_associations_for_asset_type(self, asset_type: str) -> list:
            """
            Get all Associations for a specific Class

            Arguments:
            asset_type      - a string representing the class for which we want to list
                              the associations

            Return:
            A dictionary representing the set of associations for the specified
            class. Each key in the dictionary is an attack name and is associated
            with a dictionary containing other characteristics of the attack such as
            type of attack, TTC distribution, child attack steps and other information
            """
            logger.debug(
                'Get associations for %s asset from '
                'language specification.', asset_type
            )
            associations: list = []

            asset = next((asset for asset in self._lang_spec['assets'] if asset['name'] == \
                asset_type), None)
            if not asset:
                logger.error(
                    'Failed to find asset type %s when '
                    'looking for associations.', asset_type
                )
                return associations

            if asset['superAsset']:
                logger.debug('Asset extends another one, fetch the superclass '\
                    'associations for it.')
                associations.extend(self._get_associations_for_asset_type(asset['superAsset']))
            assoc_iter = (assoc for assoc in self._lang_spec['associations'] \
                if assoc['leftAsset'] == asset_type or \
                    assoc['rightAsset'] == asset_type)
            assoc = next(assoc_iter, None)
            while (assoc):
                associations.append(assoc)
                assoc = next(assoc_iter, None)

            return associations

    def _get_variable_for_asset_type_by_name(
                self, asset_type: str, variable_name: str) -> dict:
            """
            Get a variables for a specific asset type by name.
            NOTE: Variables are the ones specified in MAL through `let` statements

            Arguments:
            asset_type      - a string representing the type of asset which
                              contains the variable
            variable_name   - the name of the variable to search for

            Return:
            A dictionary representing the step expressions for the specified variable.
            """

            asset = next((asset for asset in self._lang_spec['assets'] if asset['name'] == \
                asset_type), None)
            if not asset:
                msg = 'Failed to find asset type %s when looking for variable.'
                logger.error(msg, asset_type)
                raise LanguageGraphException(msg % asset_type)

            variable_dict = next((variable for variable in \
                asset['variables'] if variable['name'] == variable_name), None)
            if not variable_dict:
                if asset['superAsset']:
                    variable_dict = self._get_variable_for_asset_type_by_name(asset['superAsset'],
                                                           variable_name)
                if variable_dict:
                    return variable_dict
                else:
                    msg = 'Failed to find variable %s in %s lang specification.'
                    logger.error(msg, variable_name, asset_type)
                    raise LanguageGraphException(
                        msg % (variable_name, asset_type))

            return variable_dict['stepExpression']

    def regenerate_graph(self) -> None:
            """
            Regenerate language graph starting from the MAL language specification
            given in the constructor.
            """

            self.assets = []
            self.associations = []
            self.attack_steps = []
            self._generate_graph()


class malVisitor:
    def visitMal(self, ctx):
            langspec = {
                "formatVersion": "1.0.0",
                "defines": {},
                "categories": [],
                "assets": [],
                "associations": [],
            }

            # no visitDeclaration method needed, `declaration` is a thin rule
            for declaration in (d.getChild(0) for d in ctx.declaration()):
                if result := self.visit(declaration) or True:
                    key, value = result

                    if key == "categories":
                        category, assets = value
                        langspec["categories"].extend(category)
                        langspec["assets"].extend(assets)
                        continue

                    if key == "defines":
                        langspec[key].update(value)

                    if key == "associations":
                        langspec[key].extend(value)

                    if key == "include":
                        included_file = self.compiler.compile(value)
                        for k, v in langspec.items():
                            if isinstance(v, MutableMapping):
                                langspec[k].update(included_file.get(k, {}))
                            if isinstance(v, MutableSequence) and k in included_file:
                                langspec[k].extend(included_file[k])

            for key in ("categories", "assets", "associations"):
                unique = []
                for item in langspec[key]:
                    if item not in unique:
                        unique.append(item)
                langspec[key] = unique

            return langspec

    def visitCategory(self, ctx):
            category = {}
            category["name"] = ctx.ID().getText()
            category["meta"] = {k: v for meta in ctx.meta() for k, v in self.visit(meta)}

            assets = [self.visit(asset) for asset in ctx.asset()]

            return ("categories", ([category], assets))

    def visitAsset(self, ctx):
            asset = {}
            asset["name"] = ctx.ID()[0].getText()
            asset["meta"] = {k: v for meta in ctx.meta() for k, v in self.visit(meta)}
            asset["category"] = ctx.parentCtx.ID().getText()
            asset["isAbstract"] = ctx.ABSTRACT() is not None

            asset["superAsset"] = None
            if len(ctx.ID()) > 1 and ctx.ID()[1]:
                asset["superAsset"] = ctx.ID()[1].getText()

            asset["variables"] = [self.visit(variable) for variable in ctx.variable()]
            asset["attackSteps"] = [self.visit(step) for step in ctx.step()]

            return asset

    def visitStep(self, ctx):
            step = {}
            step["name"] = ctx.ID().getText()
            step["meta"] = {k: v for meta in ctx.meta() for k, v in self.visit(meta)}
            step["type"] = self.visit(ctx.steptype())
            step["tags"] = [self.visit(tag) for tag in ctx.tag()]
            step["risk"] = self.visit(ctx.cias()) if ctx.cias() else None
            step["ttc"] = self.visit(ctx.ttc()) if ctx.ttc() else None
            step["requires"] = (
                self.visit(ctx.precondition()) if ctx.precondition() else None
            )
            step["reaches"] = self.visit(ctx.reaches()) if ctx.reaches() else None

            return step

    def visitSteptype(self, ctx):
            return (
                "or"
                if ctx.OR()
                else "and"
                if ctx.AND()
                else "defense"
                if ctx.HASH()
                else "exist"
                if ctx.EXISTS()
                else "notExist"
                if ctx.NOTEXISTS()
                else None  # should never happen, the grammar limits it
            )

    def visitCias(self, ctx):
            risk = {
                "isConfidentiality": False,
                "isIntegrity": False,
                "isAvailability": False,
            }

            for cia in ctx.cia():
                risk.update(self.visit(cia))

            return risk

    def visitCia(self, ctx):
            key = (
                "isConfidentiality"
                if ctx.C()
                else "isIntegrity"
                if ctx.I()
                else "isAvailability"
                if ctx.A()
                else None
            )

            return {key: True}

    def visitTtcexpr(self, ctx):
            if len(terms := ctx.ttcterm()) == 1:
                return self.visit(terms[0])

            ret = {}

            lhs = self.visit(terms[0])
            for i in range(1, len(terms)):
                ret["type"] = (
                    "addition"
                    if ctx.children[2 * i - 1].getText() == "+"
                    else "subtraction"
                )
                ret["lhs"] = lhs
                ret["rhs"] = self.visit(terms[i])

                lhs = ret.copy()

            return ret

    def visitTtcterm(self, ctx):
            if len(factors := ctx.ttcfact()) == 1:
                return self.visit(factors[0])

            ret = {}

            lhs = self.visit(factors[0])
            for i in range(1, len(factors)):
                ret["type"] = (
                    "multiplication"
                    if ctx.children[2 * i - 1].getText() == "*"
                    else "division"
                )
                ret["lhs"] = lhs
                ret["rhs"] = self.visit(factors[i])

                lhs = ret.copy()

            return ret

    def visitTtcfact(self, ctx):
            if len(atoms := ctx.ttcatom()) == 1:
                ret = self.visit(atoms[0])
            else:
                ret = {}
                ret["type"] = "exponentiation"
                ret["lhs"] = self.visit(atoms[0])
                ret["rhs"] = self.visit(atoms[1])

            return ret

    def visitTtcatom(self, ctx):
            if ctx.ttcdist():
                ret = self.visit(ctx.ttcdist())
            elif ctx.ttcexpr():
                ret = self.visit(ctx.ttcexpr())
            elif ctx.number():
                ret = self.visit(ctx.number())

            return ret

    def visitTtcdist(self, ctx):
            ret = {"type": "function"}
            ret["name"] = ctx.ID().getText()
            ret["arguments"] = []

            if ctx.LPAREN():
                ret["arguments"] = [self.visit(number)["value"] for number in ctx.number()]

            return ret

    def visitPrecondition(self, ctx):
            ret = {}
            ret["overrides"] = True
            ret["stepExpressions"] = [self.visit(expr) for expr in ctx.expr()]
            return ret

    def visitReaches(self, ctx):
            ret = {}
            ret["overrides"] = ctx.INHERITS() is None
            ret["stepExpressions"] = [self.visit(expr) for expr in ctx.expr()]

            return ret

    def visitNumber(self, ctx):
            ret = {"type": "number"}
            ret["value"] = float(ctx.getText())

            return ret

    def visitVariable(self, ctx):
            ret = {}
            ret["name"] = ctx.ID().getText()
            ret["stepExpression"] = self.visit(ctx.expr())

            return ret

    def visitExpr(self, ctx):
            if len(ctx.parts()) == 1:
                return self.visit(ctx.parts()[0])

            ret = {}
            lhs = self.visit(ctx.parts()[0])
            for i in range(1, len(ctx.parts())):
                ret["type"] = self.visit(ctx.children[2 * i - 1])
                ret["lhs"] = lhs
                ret["rhs"] = self.visit(ctx.parts()[i])
                lhs = ret.copy()

            return ret

    def visitParts(self, ctx):
            if len(ctx.part()) == 1:
                return self.visit(ctx.part()[0])

            ret = {}

            lhs = self.visit(ctx.part()[0])

            for i in range(1, len(ctx.part())):
                ret["type"] = "collect"
                ret["lhs"] = lhs
                ret["rhs"] = self.visit(ctx.part()[i])

                lhs = ret.copy()

            return ret

    def visitPart(self, ctx):
            ret = {}
            if ctx.varsubst():
                ret["type"] = "variable"
                ret["name"] = self.visit(ctx.varsubst())
            elif ctx.LPAREN():
                ret = self.visit(ctx.expr())
            else:  # ctx.ID()
                # Resolve type: field or attackStep?
                ret["type"] = self._resolve_part_ID_type(ctx)

                ret["name"] = ctx.ID().getText()

            if ctx.STAR():
                ret = {"type": "transitive", "stepExpression": ret}

            for type_ in ctx.type_():  # mind the trailing underscore
                ret = {
                    "type": "subType",
                    "subType": self.visit(type_),
                    "stepExpression": ret,
                }

            return ret

    def _resolve_part_ID_type(self, ctx):
            pctx = ctx.parentCtx

            # Traverse up the tree until we find the parent of the topmost expr
            # (saying "topmost" as expr can be nested) or the root of the tree.
            while pctx and not isinstance(
                pctx,
                malParser.ReachesContext
                # Expressions are also valid in `let` variable assignments, but
                # there every lexical component of expr is considered a "field",
                # no need to resolve the type in that case. Similarly, preconditions
                # (`<-`) only accept fields.
            ):
                pctx = pctx.parentCtx

            if pctx is None:
                # ctx (the `part`) belongs to a "let" assignment or a precondition.
                return "field"

            # scan for a dot to the right of `ctx`
            file_tokens = ctx.parser.getTokenStream().tokens
            for i in range(ctx.start.tokenIndex, pctx.stop.tokenIndex + 1):
                if file_tokens[i].type == malParser.DOT:
                    return "field"

                # We are looping until the end of pctx (which is a `reaches` or
                # `precondition` context). This could include multiple comma
                # separated `expr`s, we only care for the current one.
                if file_tokens[i].type == malParser.COMMA:  # end of current `expr`
                    return "attackStep"

            return "attackStep"

    def visitSetop(self, ctx):
            return (
                "union"
                if ctx.UNION()
                else "intersection"
                if ctx.INTERSECT()
                else "difference"
                if ctx.INTERSECT
                else None
            )

    def visitAssociation(self, ctx):
            association = {}
            association["name"] = self.visit(ctx.linkname())
            association["meta"] = {k: v for meta in ctx.meta() for k, v in self.visit(meta)}
            association["leftAsset"] = ctx.ID()[0].getText()
            association["leftField"] = self.visit(ctx.field()[0])

            # no self.visitMult or self.visitMultatom methods, reading them here
            # directly
            association["leftMultiplicity"] = {
                "min": (multatoms := ctx.mult()[0].multatom()).pop(0).getText(),
                "max": multatoms.pop().getText() if multatoms else None,
            }
            association["rightAsset"] = ctx.ID()[1].getText()
            association["rightField"] = self.visit(ctx.field()[1])
            association["rightMultiplicity"] = {
                "min": (multatoms := ctx.mult()[1].multatom()).pop(0).getText(),
                "max": multatoms.pop().getText() if multatoms else None,
            }

            self._post_process_multitudes(association)
            return association

    def _post_process_multitudes(self, association):
            mult_keys = [
                # start the multatoms from right to left to make sure the rules
                # below get applied cleanly
                "rightMultiplicity.max",
                "rightMultiplicity.min",
                "leftMultiplicity.max",
                "leftMultiplicity.min",
            ]

            for mult_key in mult_keys:
                key, subkey = mult_key.split(".")

                # upper limit equals lower limit if not given
                if subkey == "max" and association[key][subkey] is None:
                    association[key][subkey] = association[key]["min"]

                if association[key][subkey] == "*":
                    # 'any' as lower limit means start from 0
                    if subkey == "min":
                        association[key][subkey] = 0

                    # 'any' as upper limit means not limit
                    else:
                        association[key][subkey] = None

                # cast numerical strings to integers
                if (multatom := association[key][subkey]) and multatom.isdigit():
                    association[key][subkey] = int(association[key][subkey])

    def visitInclude(self, ctx):
            return ("include", ctx.STRING().getText().strip('"'))

    def visitDefine(self, ctx):
            return ("defines", {ctx.ID().getText(): ctx.STRING().getText().strip('"')})

    def visitMeta(self, ctx):
            return ((ctx.ID().getText(), ctx.STRING().getText().strip('"')),)


