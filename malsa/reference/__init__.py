"""Reference decision tables, written as Python source that is PARSED, never executed."""
