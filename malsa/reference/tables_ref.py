"""Reference tables T1-T8 (DESIGN appendix F) as source code in the term language of genf.py.

These functions are never imported or executed by the checks: they are parsed with `ast` and
normalised by the same extractor as the repository's functions; rule R17 compares the canonical
decision tables.  They are derived from the property statements (C08, C12, C13), NOT from the
repository code.  Parameter order matches the repository functions.
"""
# flake8: noqa


def _G(n):
    """TTC gate: the node carries a probability distribution (anything but Enabled/Disabled)."""
    return n.ttc and 'name' in n.ttc and n.ttc['name'] not in ['Enabled', 'Disabled']


# ---- T1
def evaluate_viability(node):
    match node.type:
        case 'exist':
            node.is_viable = node.existence_status
        case 'notExist':
            node.is_viable = not node.existence_status
        case 'defense':
            node.is_viable = node.defense_status != 1.0
        case 'or':
            node.is_viable = any(parent.is_viable for parent in node.parents)
        case 'and':
            node.is_viable = all(parent.is_viable for parent in node.parents)
        case _:
            raise ValueError()


# ---- T2
def evaluate_necessity(node):
    match node.type:
        case 'exist':
            node.is_necessary = not node.existence_status
        case 'notExist':
            node.is_necessary = bool(node.existence_status)
        case 'defense':
            node.is_necessary = node.defense_status != 0.0
        case 'or':
            node.is_necessary = all(parent.is_necessary for parent in node.parents)
        case 'and':
            node.is_necessary = any(parent.is_necessary for parent in node.parents)
        case _:
            raise ValueError()


# ---- T3
def propagate_viability_from_node(node):
    for child in node.children:
        original_value = child.is_viable
        if child.type == 'or':
            child.is_viable = any(parent.is_viable for parent in child.parents)
        if child.type == 'and':
            child.is_viable = False
        if child.is_viable != original_value:
            propagate_viability_from_node(child)


# ---- T4  (a parent with a TTC distribution always counts as necessary for its children)
def propagate_necessity_from_node(node):
    if _G(node):
        return
    for child in node.children:
        original_value = child.is_necessary
        if child.type == 'or':
            child.is_necessary = False
        if child.type == 'and':
            child.is_necessary = any(parent.is_necessary or _G(parent) for parent in child.parents)
        if child.is_necessary != original_value:
            propagate_necessity_from_node(child)


# ---- T5
def calculate_viability_and_necessity(graph):
    for node in graph.nodes:
        if node.type in ['exist', 'notExist', 'defense']:
            evaluate_viability(node)
            evaluate_necessity(node)
            if not node.is_viable:
                propagate_viability_from_node(node)
            if not node.is_necessary:
                propagate_necessity_from_node(node)


# ---- T6
def prune_unviable_and_unnecessary_nodes(graph):
    for node in list(graph.nodes):
        if (node.type == 'or' or node.type == 'and') and (not node.is_viable or not node.is_necessary):
            graph.remove_node(node)


# ---- T7
def is_node_traversable_by_attacker(node, attacker):
    if not node.is_viable:
        return False
    if node.type == 'or':
        return True
    if node.type == 'and':
        return all(not (parent.is_necessary and attacker not in parent.compromised_by)
                   for parent in node.parents)
    return False


# ---- T8
def is_enabled_defense(self):
    return self.type == 'defense' and 'suppress' not in self.tags and self.defense_status == 1.0


def is_available_defense(self):
    return self.type == 'defense' and 'suppress' not in self.tags and self.defense_status != 1.0


def get_defense_surface(graph):
    return [node for node in graph.nodes
            if node.type == 'defense' and 'suppress' not in node.tags and node.defense_status != 1.0]


def get_enabled_defenses(graph):
    return [node for node in graph.nodes
            if node.type == 'defense' and 'suppress' not in node.tags and node.defense_status == 1.0]


def get_attack_surface(attacker):
    attack_surface = []
    for attack_step in attacker.reached_attack_steps:
        for child in attack_step.children:
            if is_node_traversable_by_attacker(child, attacker) and child not in attack_surface:
                attack_surface.append(child)
    return attack_surface


def update_attack_surface_add_nodes(attacker, current_attack_surface, nodes):
    attack_surface = current_attack_surface
    for attack_step in nodes:
        for child in attack_step.children:
            if is_node_traversable_by_attacker(child, attacker) and child not in attack_surface:
                attack_surface.append(child)
    return attack_surface


# ---- T10  step inheritance fold (C03: '->' replaces, '+>' appends, no reaches leaves untouched;
#           the ancestors are folded first).  Copies are normalised away (freshness is rule R6).
class LanguageGraph:
    def _get_attacks_for_asset_type(self, asset_type):
        attack_steps = {}
        asset = next((asset for asset in self._lang_spec['assets'] if asset['name'] == asset_type), None)
        if asset is None:
            return attack_steps
        if asset['superAsset']:
            attack_steps = self._get_attacks_for_asset_type(asset['superAsset'])
        for step in asset['attackSteps']:
            if step['name'] not in attack_steps:
                attack_steps[step['name']] = step
            elif not step['reaches']:
                continue
            elif step['reaches']['overrides'] == True:
                attack_steps[step['name']] = step
            else:
                if attack_steps[step['name']]['reaches'] is not None and \
                        'stepExpressions' in attack_steps[step['name']]['reaches']:
                    attack_steps[step['name']]['reaches']['stepExpressions'].extend(
                        step['reaches']['stepExpressions'])
                else:
                    attack_steps[step['name']]['reaches'] = {
                        'overrides': False,
                        'stepExpressions': step['reaches']['stepExpressions']
                    }
        return attack_steps
