"""Reference tables T1-T8 (DESIGN appendix F) as source code in the term language of genf.py.

These functions are never imported or executed by the checks: they are parsed with `ast` and
normalised by the same extractor as the repository's functions; rule R17 compares the canonical
decision tables.  They are derived from the property statements (C08, C12, C13), NOT from the
repository code.  Parameter order matches the repository functions.
"""
# flake8: noqa


def _G(n):
    """TTC gate: the node carries a probability distribution (anything but Enabled/Disabled)."""
    return n.ttc and 'name' in n.ttc and n.ttc['name'] not in ['Enabled', 'Disabled']


# ---- T1
def evaluate_viability(node):
    match node.type:
        case 'exist':
            node.is_viable = node.existence_status
        case 'notExist':
            node.is_viable = not node.existence_status
        case 'defense':
            node.is_viable = node.defense_status != 1.0
        case 'or':
            node.is_viable = any(parent.is_viable for parent in node.parents)
        case 'and':
            node.is_viable = all(parent.is_viable for parent in node.parents)
        case _:
            raise ValueError()


# ---- T2
def evaluate_necessity(node):
    match node.type:
        case 'exist':
            node.is_necessary = not node.existence_status
        case 'notExist':
            node.is_necessary = bool(node.existence_status)
        case 'defense':
            node.is_necessary = node.defense_status != 0.0
        case 'or':
            node.is_necessary = all(parent.is_necessary for parent in node.parents)
        case 'and':
            node.is_necessary = any(parent.is_necessary for parent in node.parents)
        case _:
            raise ValueError()


# ---- T3
def propagate_viability_from_node(node):
    for child in node.children:
        original_value = child.is_viable
        if child.type == 'or':
            child.is_viable = any(parent.is_viable for parent in child.parents)
        if child.type == 'and':
            child.is_viable = False
        if child.is_viable != original_value:
            propagate_viability_from_node(child)


# ---- T4  (a parent with a TTC distribution always counts as necessary for its children)
def propagate_necessity_from_node(node):
    if _G(node):
        return
    for child in node.children:
        original_value = child.is_necessary
        if child.type == 'or':
            child.is_necessary = False
        if child.type == 'and':
            child.is_necessary = any(parent.is_necessary or _G(parent) for parent in child.parents)
        if child.is_necessary != original_value:
            propagate_necessity_from_node(child)


# ---- T5
def calculate_viability_and_necessity(graph):
    for node in graph.nodes:
        if node.type in ['exist', 'notExist', 'defense']:
            evaluate_viability(node)
            evaluate_necessity(node)
            if not node.is_viable:
                propagate_viability_from_node(node)
            if not node.is_necessary:
                propagate_necessity_from_node(node)


# ---- T6
def prune_unviable_and_unnecessary_nodes(graph):
    for node in list(graph.nodes):
        if (node.type == 'or' or node.type == 'and') and (not node.is_viable or not node.is_necessary):
            graph.remove_node(node)


# ---- T7
def is_node_traversable_by_attacker(node, attacker):
    if not node.is_viable:
        return False
    if node.type == 'or':
        return True
    if node.type == 'and':
        return all(not (parent.is_necessary and attacker not in parent.compromised_by)
                   for parent in node.parents)
    return False


# ---- T8
def is_enabled_defense(self):
    return self.type == 'defense' and 'suppress' not in self.tags and self.defense_status == 1.0


def is_available_defense(self):
    return self.type == 'defense' and 'suppress' not in self.tags and self.defense_status != 1.0


def get_defense_surface(graph):
    return [node for node in graph.nodes
            if node.type == 'defense' and 'suppress' not in node.tags and node.defense_status != 1.0]


def get_enabled_defenses(graph):
    return [node for node in graph.nodes
            if node.type == 'defense' and 'suppress' not in node.tags and node.defense_status == 1.0]


def get_attack_surface(attacker):
    attack_surface = []
    for attack_step in attacker.reached_attack_steps:
        for child in attack_step.children:
            if is_node_traversable_by_attacker(child, attacker) and child not in attack_surface:
                attack_surface.append(child)
    return attack_surface


def update_attack_surface_add_nodes(attacker, current_attack_surface, nodes):
    attack_surface = current_attack_surface
    for attack_step in nodes:
        for child in attack_step.children:
            if is_node_traversable_by_attacker(child, attacker) and child not in attack_surface:
                attack_surface.append(child)
    return attack_surface


# ---- T10  step inheritance fold (C03: '->' replaces, '+>' appends, no reaches leaves untouched;
#           the ancestors are folded first).  Copies are normalised away (freshness is rule R6).
class LanguageGraph:
    def _get_attacks_for_asset_type(self, asset_type):
        attack_steps = {}
        asset = next((asset for asset in self._lang_spec['assets'] if asset['name'] == asset_type), None)
        if asset is None:
            return attack_steps
        if asset['superAsset']:
            attack_steps = self._get_attacks_for_asset_type(asset['superAsset'])
        for step in asset['attackSteps']:
            if step['name'] not in attack_steps:
                attack_steps[step['name']] = step
            elif not step['reaches']:
                continue
            elif step['reaches']['overrides'] == True:
                attack_steps[step['name']] = step
            else:
                if attack_steps[step['name']]['reaches'] is not None and \
                        'stepExpressions' in attack_steps[step['name']]['reaches']:
                    attack_steps[step['name']]['reaches']['stepExpressions'].extend(
                        step['reaches']['stepExpressions'])
                else:
                    attack_steps[step['name']]['reaches'] = {
                        'overrides': False,
                        'stepExpressions': step['reaches']['stepExpressions']
                    }
        return attack_steps


# ---- T12  association validation (C06): identical association, repeated asset inside a field,
#           already linked pair - each rejected, none of the checks can be skipped; add_association
#           validates before it writes anything.
class Model:
    def _validate_association(self, association):
        association_type = association.__class__.__name__
        associations_same_type = self._type_to_association.get(association_type, [])
        if association in associations_same_type:
            raise DuplicateModelAssociationError()
        left_field_name, right_field_name = self.get_association_field_names(association)
        for field_name in (left_field_name, right_field_name):
            field_assets = getattr(association, field_name)
            unique_field_asset_names = {a.name for a in field_assets}
            if len(field_assets) > len(unique_field_asset_names):
                raise ModelAssociationException()
        for left_asset in getattr(association, left_field_name):
            for right_asset in getattr(association, right_field_name):
                if self.association_exists_between_assets(association_type, left_asset, right_asset):
                    raise DuplicateModelAssociationError()

    def add_association(self, association):
        self._validate_association(association)
        if not hasattr(association, 'extras'):
            association.extras = {}
        field_names = self.get_association_field_names(association)
        for field_name in field_names:
            for asset in getattr(association, field_name):
                asset.associations.append(association)
        self.associations.append(association)
        self._type_to_association.setdefault(association.__class__.__name__, []).append(association)


# ---- T11  JSON-schema literals of the class factory (C06)
class LanguageClassesFactory:
    def _generate_assets(self):
        for asset in self.lang_graph.assets:
            asset_json_entry = {'title': asset.name, 'type': 'object', 'properties': {}}
            asset_json_entry['properties']['id'] = {'type': 'integer'}
            asset_json_entry['properties']['type'] = {'type': 'string', 'default': asset.name}
            if asset.super_assets:
                asset_json_entry['allOf'] = [
                    {'$ref': '#/definitions/LanguageAsset/definitions/' + superasset.name}
                    for superasset in asset.super_assets]
            for defense in asset.attack_steps:
                if defense.type == 'defense':
                    if defense.ttc and defense.ttc['name'] == 'Enabled':
                        default_defense_value = 1.0
                    else:
                        default_defense_value = 0.0
                    asset_json_entry['properties'][defense.name] = {
                        'type': 'number', 'minimum': 0, 'maximum': 1, 'default': default_defense_value}
            self.json_schema['definitions']['LanguageAsset']['definitions'][asset.name] = asset_json_entry
            self.json_schema['definitions']['LanguageAsset']['oneOf'].append(
                {'$ref': '#/definitions/LanguageAsset/definitions/' + asset.name})

    def get_association_by_signature(self, assoc_name, left_asset, right_asset):
        lang_assocs_entries = self.json_schema['definitions']['LanguageAssociation']['definitions']
        if assoc_name not in lang_assocs_entries:
            raise LookupError()
        assoc_entry = lang_assocs_entries[assoc_name]
        if 'definitions' in assoc_entry and len(assoc_entry['definitions']) > 1:
            full_name = '%s_%s_%s' % (assoc_name, left_asset, right_asset)
            full_name_flipped = '%s_%s_%s' % (assoc_name, right_asset, left_asset)
            if full_name in assoc_entry['definitions']:
                return full_name
            if full_name_flipped in assoc_entry['definitions']:
                return full_name_flipped
            raise LookupError()
        return assoc_name

    def _generate_associations(self):
        def field_entry(assoc, assoc_json_entry, field):
            assoc_json_entry['properties'][field.fieldname] = {
                'type': 'array',
                'items': {'$ref': '#/definitions/LanguageAsset/definitions/' + field.asset.name}}
            if field.maximum:
                assoc_json_entry['properties'][field.fieldname]['maxItems'] = field.maximum

        def entry(assoc):
            assoc_json_entry = {'title': assoc.name, 'type': 'object', 'properties': {}}
            field_entry(assoc, assoc_json_entry, assoc.left_field)
            field_entry(assoc, assoc_json_entry, assoc.right_field)
            return assoc_json_entry

        for assoc in self.lang_graph.associations:
            count = len([a for a in self.lang_graph.associations if a.name == assoc.name])
            if count > 1:
                if assoc.name not in self.json_schema['definitions']['LanguageAssociation']['definitions']:
                    self.json_schema['definitions']['LanguageAssociation']['definitions'][assoc.name] = {
                        'title': assoc.name, 'type': 'object', 'oneOf': [], 'definitions': {}}
                    self.json_schema['definitions']['LanguageAssociation']['oneOf'].append(
                        {'$ref': '#/definitions/LanguageAssociation/definitions/' + assoc.name})
                assoc_json_subentry = entry(assoc)
                subentry_name = assoc.name + '_' + assoc.left_field.asset.name + '_' + assoc.right_field.asset.name
                assoc_json_subentry['title'] = subentry_name
                self.json_schema['definitions']['LanguageAssociation']['definitions'][assoc.name][
                    'definitions'][subentry_name] = assoc_json_subentry
                self.json_schema['definitions']['LanguageAssociation']['definitions'][assoc.name]['oneOf'].append(
                    {'$ref': '#/definitions/LanguageAssociation/definitions/' + assoc.name + '/definitions/'
                             + subentry_name})
            else:
                assoc_json_entry = entry(assoc)
                self.json_schema['definitions']['LanguageAssociation']['definitions'][assoc.name] = assoc_json_entry
                self.json_schema['definitions']['LanguageAssociation']['oneOf'].append(
                    {'$ref': '#/definitions/LanguageAssociation/' + 'definitions/' + assoc.name})


# ----------------------------------------------------------------------------------------------- T13
# C15: "each asset lists exactly the associations in which it or an ancestor takes part": the
# ancestors' associations first, then every association naming the type on EITHER side.
def _get_associations_for_asset_type(self, asset_type):
    associations = []
    asset = next((a for a in self._lang_spec['assets'] if a['name'] == asset_type), None)
    if not asset:
        return associations
    if asset['superAsset']:
        associations.extend(self._get_associations_for_asset_type(asset['superAsset']))
    for assoc in self._lang_spec['associations']:
        if assoc['leftAsset'] == asset_type or assoc['rightAsset'] == asset_type:
            associations.append(assoc)
    return associations


# ----------------------------------------------------------------------------------------------- T14-T16
# C11: a node is compromised by an attacker iff the attacker is in compromised_by; compromise adds the
# pair to both lists unless present; undo removes it from both lists unless absent.
def is_compromised_by(self, attacker):
    return attacker in self.compromised_by


def compromise(self, node):
    if self in node.compromised_by:
        return
    node.compromised_by.append(self)
    self.reached_attack_steps.append(node)


def undo_compromise(self, node):
    if self not in node.compromised_by:
        return
    node.compromised_by.remove(self)
    self.reached_attack_steps.remove(node)


# ----------------------------------------------------------------------------------------------- T17-T19
# C05: entry points are one (asset, [step names]) tuple per asset; adding a step twice changes
# nothing; removing the last step of an asset removes the tuple; removing what is absent changes nothing.
def get_entry_point_tuple(self, asset):
    return next((ep for ep in self.entry_points if ep[0] == asset), None)


def add_entry_point(self, asset, attackstep_name):
    entry_point_tuple = next((ep for ep in self.entry_points if ep[0] == asset), None)
    if entry_point_tuple:
        if attackstep_name not in entry_point_tuple[1]:
            entry_point_tuple[1].append(attackstep_name)
    else:
        self.entry_points.append((asset, [attackstep_name]))


def remove_entry_point(self, asset, attackstep_name):
    entry_point_tuple = next((ep for ep in self.entry_points if ep[0] == asset), None)
    if entry_point_tuple:
        if attackstep_name in entry_point_tuple[1]:
            entry_point_tuple[1].remove(attackstep_name)
        if not entry_point_tuple[1]:
            self.entry_points.remove(entry_point_tuple)


# ----------------------------------------------------------------------------------------------- T20
# C15: "association lookup by field names and asset types answers correctly in both orientations": an
# association matches when (fields, asset types) fit left/right as given, or BOTH flipped together.
def get_association_by_fields_and_assets(self, first_field, second_field, first_asset_name, second_asset_name):
    first_asset = self.get_asset_by_name(first_asset_name)
    if first_asset is None:
        raise LookupError('unknown asset')
    second_asset = self.get_asset_by_name(second_asset_name)
    if second_asset is None:
        raise LookupError('unknown asset')
    for assoc in self.associations:
        if assoc.left_field.fieldname == first_field and assoc.right_field.fieldname == second_field and \
                first_asset.is_subasset_of(assoc.left_field.asset) and \
                second_asset.is_subasset_of(assoc.right_field.asset):
            return assoc
        if assoc.left_field.fieldname == second_field and assoc.right_field.fieldname == first_field and \
                second_asset.is_subasset_of(assoc.left_field.asset) and \
                first_asset.is_subasset_of(assoc.right_field.asset):
            return assoc
    return None


# ----------------------------------------------------------------------------------------------- T21
# C05: "an asset lists an association exactly when that association lists the asset ... a removed association
# leaves no trace": every asset of either field loses ONE registration per field it sits in (an asset on both
# sides was registered twice by add_association), the association leaves the list and its type bucket, an empty
# bucket is deleted; an association that is not in the model raises before anything changes.
def remove_association(self, association):
    if association not in self.associations:
        raise LookupError('not part of the model')
    left_field_name, right_field_name = self.get_association_field_names(association)
    for asset in getattr(association, left_field_name):
        assocs = list(asset.associations)
        assocs.remove(association)
        asset.associations = assocs
    for asset in getattr(association, right_field_name):
        if association in asset.associations:
            assocs = list(asset.associations)
            assocs.remove(association)
            asset.associations = assocs
    self.associations.remove(association)
    association_type = association.__class__.__name__
    self._type_to_association[association_type].remove(association)
    if len(self._type_to_association[association_type]) == 0:
        del self._type_to_association[association_type]


# ----------------------------------------------------------------------------------------------- T22
# C05: removing an asset from an association takes it out of EVERY field it sits in (both, for a reflexive
# association); a side that would become empty removes the whole association; each removal from a field drops one
# registration from asset.associations; an asset that is in neither field raises, with nothing changed.
def remove_asset_from_association(self, asset, association):
    if asset not in self.assets:
        raise LookupError('asset not part of the model')
    if association not in self.associations:
        raise LookupError('association not part of the model')
    left_field_name, right_field_name = self.get_association_field_names(association)
    left_field = getattr(association, left_field_name)
    right_field = getattr(association, right_field_name)
    found = False
    for field in [left_field, right_field]:
        if asset in field:
            found = True
            if len(field) == 1:
                self.remove_association(association)
                return
            field.remove(asset)
            assocs = list(asset.associations)
            assocs.remove(association)
            asset.associations = assocs
    if not found:
        raise LookupError('not part of the association')


# ----------------------------------------------------------------------------------------------- T23
# C05: "live asset ids and names are unique, an explicitly requested id (including 0 and negative ids) is
# honoured ... An operation that raises leaves the observable state unchanged": the id is the requested one when
# one is given (None is the only 'not given'), else the counter; a taken id raises before anything is reserved; an
# unnamed asset is called Type:id, a taken name gets ':id' appended (or raises when duplicates are forbidden), and
# that is repeated until the name is free; only then id, counter (never moved backwards, always past the id) and
# name are reserved and the asset is listed.
def add_asset(self, asset, asset_id=None, allow_duplicate_names=True):
    asset.id = asset_id if asset_id is not None else self.next_id
    if asset.id in self.asset_ids:
        raise ValueError('id in use')
    asset.associations = []
    if not hasattr(asset, 'name'):
        asset.name = asset.type + ':' + str(asset.id)
    else:
        if asset.name in self.asset_names:
            if allow_duplicate_names:
                asset.name = asset.name + ':' + str(asset.id)
            else:
                raise ValueError('duplicate name')
    while asset.name in self.asset_names:
        asset.name = asset.name + ':' + str(asset.id)
    self.asset_ids.add(asset.id)
    self.next_id = max(asset.id + 1, self.next_id)
    self.asset_names.add(asset.name)
    if not hasattr(asset, 'extras'):
        asset.extras = {}
    self.assets.append(asset)


# ----------------------------------------------------------------------------------------------- T24
# C05: attackers share the id counter with the assets: an explicit id (None = not given) is honoured, the counter
# always ends past the id and never moves backwards; an attacker without a (non-empty) name is called Attacker:id.
def add_attacker(self, attacker, attacker_id=None):
    if attacker_id is not None:
        attacker.id = attacker_id
    else:
        attacker.id = self.next_id
    self.next_id = max(attacker.id + 1, self.next_id)
    if not hasattr(attacker, 'name') or not attacker.name:
        attacker.name = 'Attacker:' + str(attacker.id)
    self.attackers.append(attacker)


# ----------------------------------------------------------------------------------------------- T25
# C05: "a removed asset ... leaves no trace in associations, attackers' entry points or the reserved ids and
# names": an asset that is not in the model raises first; every association it lists is handled exactly once (a
# reflexive association is listed once per field); every attacker drops its entry point tuple for the asset; the
# asset, its id and its name are released.
def remove_asset(self, asset):
    if asset not in self.assets:
        raise LookupError('not part of the model')
    associations = []
    for association in asset.associations:
        if association not in associations:
            associations.append(association)
    for association in associations:
        self.remove_asset_from_association(asset, association)
    for attacker in self.attackers:
        entry_point_tuple = next((ep for ep in attacker.entry_points if ep[0] == asset), None)
        if entry_point_tuple:
            attacker.entry_points.remove(entry_point_tuple)
    self.assets.remove(asset)
    self.asset_ids.remove(asset.id)
    self.asset_names.remove(asset.name)


# ----------------------------------------------------------------------------------------------- T26
# C05/C06: two assets are already linked by an association type exactly when ONE association of that type holds
# the first in its left field AND the second in its right field (compared by id).
def association_exists_between_assets(self, association_type, left_asset, right_asset):
    associations = self._type_to_association.get(association_type, [])
    for association in associations:
        left_field_name, right_field_name = self.get_association_field_names(association)
        if left_asset.id in [asset.id for asset in getattr(association, left_field_name)] and \
                right_asset.id in [asset.id for asset in getattr(association, right_field_name)]:
            return True
    return False


# ----------------------------------------------------------------------------------------------- T27
# C05: "the neighbours reported for (asset, field) are exactly the assets linked through that field (self-links
# included)": for every association the asset lists, the members of the named field are reported when the asset
# sits in the opposite field - tested for both directions independently (an asset can sit on both sides).
def get_associated_assets_by_field_name(self, asset, field_name):
    associated_assets = []
    for association in asset.associations:
        left_field_name, right_field_name = self.get_association_field_names(association)
        if right_field_name == field_name and asset in getattr(association, left_field_name):
            associated_assets.extend(getattr(association, right_field_name))
        if left_field_name == field_name and asset in getattr(association, right_field_name):
            associated_assets.extend(getattr(association, left_field_name))
    return associated_assets


# ----------------------------------------------------------------------------------------------- T28
def remove_attacker(self, attacker):
    self.attackers.remove(attacker)
