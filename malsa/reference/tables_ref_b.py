"""Reference tables, tier B: transcribed from /repo at df871bd and reviewed against the property statements
(see tools/make_ref_b.py).  Parsed and normalised by R17, never imported or executed."""
# flake8: noqa


# ---- B100  malVisitor.visitMal  (C04, C17)  [maltoolbox/language/compiler/mal_visitor.py]
def malVisitor__visitMal(self, ctx):
    langspec = {'formatVersion': '1.0.0', 'defines': {}, 'categories': [], 'assets': [], 'associations': []}
    for declaration in (d.getChild(0) for d in ctx.declaration()):
        if (result := (self.visit(declaration) or True)):
            key, value = result
            if key == 'categories':
                category, assets = value
                langspec['categories'].extend(category)
                langspec['assets'].extend(assets)
                continue
            if key == 'defines':
                langspec[key].update(value)
            if key == 'associations':
                langspec[key].extend(value)
            if key == 'include':
                included_file = self.compiler.compile(value)
                for k, v in langspec.items():
                    if isinstance(v, MutableMapping):
                        langspec[k].update(included_file.get(k, {}))
                    if isinstance(v, MutableSequence) and k in included_file:
                        langspec[k].extend(included_file[k])
    for key in ('categories', 'assets', 'associations'):
        unique = []
        for item in langspec[key]:
            if item not in unique:
                unique.append(item)
        langspec[key] = unique
    return langspec


# ---- B101  malVisitor.visitInclude  (C04, C17)  [maltoolbox/language/compiler/mal_visitor.py]
def malVisitor__visitInclude(self, ctx):
    return ('include', ctx.STRING().getText().strip('"'))


# ---- B102  malVisitor.visitDefine  (C04)  [maltoolbox/language/compiler/mal_visitor.py]
def malVisitor__visitDefine(self, ctx):
    return ('defines', {ctx.ID().getText(): ctx.STRING().getText().strip('"')})


# ---- B103  malVisitor.visitCategory  (C04)  [maltoolbox/language/compiler/mal_visitor.py]
def malVisitor__visitCategory(self, ctx):
    category = {}
    category['name'] = ctx.ID().getText()
    category['meta'] = {k: v for meta in ctx.meta() for k, v in self.visit(meta)}
    assets = [self.visit(asset) for asset in ctx.asset()]
    return ('categories', ([category], assets))


# ---- B104  malVisitor.visitMeta  (C04)  [maltoolbox/language/compiler/mal_visitor.py]
def malVisitor__visitMeta(self, ctx):
    return ((ctx.ID().getText(), ctx.STRING().getText().strip('"')),)


# ---- B105  malVisitor.visitAsset  (C04)  [maltoolbox/language/compiler/mal_visitor.py]
def malVisitor__visitAsset(self, ctx):
    asset = {}
    asset['name'] = ctx.ID()[0].getText()
    asset['meta'] = {k: v for meta in ctx.meta() for k, v in self.visit(meta)}
    asset['category'] = ctx.parentCtx.ID().getText()
    asset['isAbstract'] = ctx.ABSTRACT() is not None
    asset['superAsset'] = None
    if len(ctx.ID()) > 1 and ctx.ID()[1]:
        asset['superAsset'] = ctx.ID()[1].getText()
    asset['variables'] = [self.visit(variable) for variable in ctx.variable()]
    asset['attackSteps'] = [self.visit(step) for step in ctx.step()]
    return asset


# ---- B106  malVisitor.visitStep  (C04)  [maltoolbox/language/compiler/mal_visitor.py]
def malVisitor__visitStep(self, ctx):
    step = {}
    step['name'] = ctx.ID().getText()
    step['meta'] = {k: v for meta in ctx.meta() for k, v in self.visit(meta)}
    step['type'] = self.visit(ctx.steptype())
    step['tags'] = [self.visit(tag) for tag in ctx.tag()]
    step['risk'] = self.visit(ctx.cias()) if ctx.cias() else None
    step['ttc'] = self.visit(ctx.ttc()) if ctx.ttc() else None
    step['requires'] = self.visit(ctx.precondition()) if ctx.precondition() else None
    step['reaches'] = self.visit(ctx.reaches()) if ctx.reaches() else None
    return step


# ---- B107  malVisitor.visitSteptype  (C04)  [maltoolbox/language/compiler/mal_visitor.py]
def malVisitor__visitSteptype(self, ctx):
    return 'or' if ctx.OR() else 'and' if ctx.AND() else 'defense' if ctx.HASH() else 'exist' if ctx.EXISTS() else 'notExist' if ctx.NOTEXISTS() else None


# ---- B108  malVisitor.visitTag  (C04)  [maltoolbox/language/compiler/mal_visitor.py]
def malVisitor__visitTag(self, ctx):
    return ctx.ID().getText()


# ---- B109  malVisitor.visitCias  (C04)  [maltoolbox/language/compiler/mal_visitor.py]
def malVisitor__visitCias(self, ctx):
    risk = {'isConfidentiality': False, 'isIntegrity': False, 'isAvailability': False}
    for cia in ctx.cia():
        risk.update(self.visit(cia))
    return risk


# ---- B110  malVisitor.visitCia  (C04)  [maltoolbox/language/compiler/mal_visitor.py]
def malVisitor__visitCia(self, ctx):
    key = 'isConfidentiality' if ctx.C() else 'isIntegrity' if ctx.I() else 'isAvailability' if ctx.A() else None
    return {key: True}


# ---- B111  malVisitor.visitTtc  (C04)  [maltoolbox/language/compiler/mal_visitor.py]
def malVisitor__visitTtc(self, ctx):
    ret = self.visit(ctx.ttcexpr())
    return ret


# ---- B112  malVisitor.visitTtcexpr  (C04)  [maltoolbox/language/compiler/mal_visitor.py]
def malVisitor__visitTtcexpr(self, ctx):
    if len((terms := ctx.ttcterm())) == 1:
        return self.visit(terms[0])
    ret = {}
    lhs = self.visit(terms[0])
    for i in range(1, len(terms)):
        ret['type'] = 'addition' if ctx.children[2 * i - 1].getText() == '+' else 'subtraction'
        ret['lhs'] = lhs
        ret['rhs'] = self.visit(terms[i])
        lhs = ret.copy()
    return ret


# ---- B113  malVisitor.visitTtcterm  (C04)  [maltoolbox/language/compiler/mal_visitor.py]
def malVisitor__visitTtcterm(self, ctx):
    if len((factors := ctx.ttcfact())) == 1:
        return self.visit(factors[0])
    ret = {}
    lhs = self.visit(factors[0])
    for i in range(1, len(factors)):
        ret['type'] = 'multiplication' if ctx.children[2 * i - 1].getText() == '*' else 'division'
        ret['lhs'] = lhs
        ret['rhs'] = self.visit(factors[i])
        lhs = ret.copy()
    return ret


# ---- B114  malVisitor.visitTtcfact  (C04)  [maltoolbox/language/compiler/mal_visitor.py]
def malVisitor__visitTtcfact(self, ctx):
    if len((atoms := ctx.ttcatom())) == 1:
        ret = self.visit(atoms[0])
    else:
        ret = {}
        ret['type'] = 'exponentiation'
        ret['lhs'] = self.visit(atoms[0])
        ret['rhs'] = self.visit(atoms[1])
    return ret


# ---- B115  malVisitor.visitTtcatom  (C04)  [maltoolbox/language/compiler/mal_visitor.py]
def malVisitor__visitTtcatom(self, ctx):
    if ctx.ttcdist():
        ret = self.visit(ctx.ttcdist())
    elif ctx.ttcexpr():
        ret = self.visit(ctx.ttcexpr())
    elif ctx.number():
        ret = self.visit(ctx.number())
    return ret


# ---- B116  malVisitor.visitTtcdist  (C04)  [maltoolbox/language/compiler/mal_visitor.py]
def malVisitor__visitTtcdist(self, ctx):
    ret = {'type': 'function'}
    ret['name'] = ctx.ID().getText()
    ret['arguments'] = []
    if ctx.LPAREN():
        ret['arguments'] = [self.visit(number)['value'] for number in ctx.number()]
    return ret


# ---- B117  malVisitor.visitPrecondition  (C04)  [maltoolbox/language/compiler/mal_visitor.py]
def malVisitor__visitPrecondition(self, ctx):
    ret = {}
    ret['overrides'] = True
    ret['stepExpressions'] = [self.visit(expr) for expr in ctx.expr()]
    return ret


# ---- B118  malVisitor.visitReaches  (C04)  [maltoolbox/language/compiler/mal_visitor.py]
def malVisitor__visitReaches(self, ctx):
    ret = {}
    ret['overrides'] = ctx.INHERITS() is None
    ret['stepExpressions'] = [self.visit(expr) for expr in ctx.expr()]
    return ret


# ---- B119  malVisitor.visitNumber  (C04)  [maltoolbox/language/compiler/mal_visitor.py]
def malVisitor__visitNumber(self, ctx):
    ret = {'type': 'number'}
    ret['value'] = float(ctx.getText())
    return ret


# ---- B120  malVisitor.visitVariable  (C04)  [maltoolbox/language/compiler/mal_visitor.py]
def malVisitor__visitVariable(self, ctx):
    ret = {}
    ret['name'] = ctx.ID().getText()
    ret['stepExpression'] = self.visit(ctx.expr())
    return ret


# ---- B121  malVisitor.visitExpr  (C04)  [maltoolbox/language/compiler/mal_visitor.py]
def malVisitor__visitExpr(self, ctx):
    if len(ctx.parts()) == 1:
        return self.visit(ctx.parts()[0])
    ret = {}
    lhs = self.visit(ctx.parts()[0])
    for i in range(1, len(ctx.parts())):
        ret['type'] = self.visit(ctx.children[2 * i - 1])
        ret['lhs'] = lhs
        ret['rhs'] = self.visit(ctx.parts()[i])
        lhs = ret.copy()
    return ret


# ---- B122  malVisitor.visitParts  (C04)  [maltoolbox/language/compiler/mal_visitor.py]
def malVisitor__visitParts(self, ctx):
    if len(ctx.part()) == 1:
        return self.visit(ctx.part()[0])
    ret = {}
    lhs = self.visit(ctx.part()[0])
    for i in range(1, len(ctx.part())):
        ret['type'] = 'collect'
        ret['lhs'] = lhs
        ret['rhs'] = self.visit(ctx.part()[i])
        lhs = ret.copy()
    return ret


# ---- B123  malVisitor.visitPart  (C04)  [maltoolbox/language/compiler/mal_visitor.py]
def malVisitor__visitPart(self, ctx):
    ret = {}
    if ctx.varsubst():
        ret['type'] = 'variable'
        ret['name'] = self.visit(ctx.varsubst())
    elif ctx.LPAREN():
        ret = self.visit(ctx.expr())
    else:
        ret['type'] = self._resolve_part_ID_type(ctx)
        ret['name'] = ctx.ID().getText()
    if ctx.STAR():
        ret = {'type': 'transitive', 'stepExpression': ret}
    for type_ in ctx.type_():
        ret = {'type': 'subType', 'subType': self.visit(type_), 'stepExpression': ret}
    return ret


# ---- B124  malVisitor._resolve_part_ID_type  (C04)  [maltoolbox/language/compiler/mal_visitor.py]
def malVisitor___resolve_part_ID_type(self, ctx):
    pctx = ctx.parentCtx
    while pctx and (not isinstance(pctx, malParser.ReachesContext)):
        pctx = pctx.parentCtx
    if pctx is None:
        return 'field'
    file_tokens = ctx.parser.getTokenStream().tokens
    for i in range(ctx.start.tokenIndex, pctx.stop.tokenIndex + 1):
        if file_tokens[i].type == malParser.DOT:
            return 'field'
        if file_tokens[i].type == malParser.COMMA:
            return 'attackStep'
    return 'attackStep'


# ---- B125  malVisitor.visitVarsubst  (C04)  [maltoolbox/language/compiler/mal_visitor.py]
def malVisitor__visitVarsubst(self, ctx):
    return ctx.ID().getText()


# ---- B126  malVisitor.visitType  (C04)  [maltoolbox/language/compiler/mal_visitor.py]
def malVisitor__visitType(self, ctx):
    return ctx.ID().getText()


# ---- B127  malVisitor.visitSetop  (C04)  [maltoolbox/language/compiler/mal_visitor.py]
def malVisitor__visitSetop(self, ctx):
    return 'union' if ctx.UNION() else 'intersection' if ctx.INTERSECT() else 'difference' if ctx.INTERSECT else None


# ---- B128  malVisitor.visitAssociations  (C04)  [maltoolbox/language/compiler/mal_visitor.py]
def malVisitor__visitAssociations(self, ctx):
    associations = []
    for assoc in ctx.association():
        associations.append(self.visit(assoc))
    return ('associations', associations)


# ---- B129  malVisitor.visitAssociation  (C04)  [maltoolbox/language/compiler/mal_visitor.py]
def malVisitor__visitAssociation(self, ctx):
    association = {}
    association['name'] = self.visit(ctx.linkname())
    association['meta'] = {k: v for meta in ctx.meta() for k, v in self.visit(meta)}
    association['leftAsset'] = ctx.ID()[0].getText()
    association['leftField'] = self.visit(ctx.field()[0])
    association['leftMultiplicity'] = {'min': (multatoms := ctx.mult()[0].multatom()).pop(0).getText(), 'max': multatoms.pop().getText() if multatoms else None}
    association['rightAsset'] = ctx.ID()[1].getText()
    association['rightField'] = self.visit(ctx.field()[1])
    association['rightMultiplicity'] = {'min': (multatoms := ctx.mult()[1].multatom()).pop(0).getText(), 'max': multatoms.pop().getText() if multatoms else None}
    self._post_process_multitudes(association)
    return association


# ---- B130  malVisitor.visitField  (C04)  [maltoolbox/language/compiler/mal_visitor.py]
def malVisitor__visitField(self, ctx):
    return ctx.ID().getText()


# ---- B131  malVisitor.visitLinkname  (C04)  [maltoolbox/language/compiler/mal_visitor.py]
def malVisitor__visitLinkname(self, ctx):
    return ctx.ID().getText()


# ---- B200  LanguageGraphAsset.to_dict  (C15)  [maltoolbox/language/languagegraph.py]
def LanguageGraphAsset__to_dict(self):
    node_dict: dict[str, Any] = {'name': self.name, 'associations': [], 'attack_steps': [], 'description': self.description, 'super_assets': [], 'sub_assets': []}
    for assoc in self.associations:
        node_dict['associations'].append((assoc.name, assoc.left_field.fieldname, assoc.right_field.fieldname))
    for attack_step in self.attack_steps:
        node_dict['attack_steps'].append(attack_step.name)
    for super_asset in self.super_assets:
        node_dict['super_assets'].append(super_asset.name)
    for sub_asset in self.sub_assets:
        node_dict['sub_assets'].append(sub_asset.name)
    return node_dict


# ---- B201  LanguageGraphAsset.is_subasset_of  (C15)  [maltoolbox/language/languagegraph.py]
def LanguageGraphAsset__is_subasset_of(self, target_asset):
    current_assets = [self]
    while current_assets:
        current_asset = current_assets.pop()
        if current_asset == target_asset:
            return True
        current_assets.extend(current_asset.super_assets)
    return False


# ---- B202  LanguageGraphAsset.get_all_subassets  (C15)  [maltoolbox/language/languagegraph.py]
def LanguageGraphAsset__get_all_subassets(self):
    current_assets = [self]
    subassets = [self]
    while current_assets:
        current_asset = current_assets.pop()
        current_assets.extend(current_asset.sub_assets)
        subassets.extend(current_asset.sub_assets)
    return subassets


# ---- B203  LanguageGraphAsset.get_all_superassets  (C15)  [maltoolbox/language/languagegraph.py]
def LanguageGraphAsset__get_all_superassets(self):
    current_assets = [self]
    superassets = [self]
    while current_assets:
        current_asset = current_assets.pop()
        current_assets.extend(current_asset.super_assets)
        superassets.extend(current_asset.super_assets)
    return superassets


# ---- B204  LanguageGraphAssociation.to_dict  (C15)  [maltoolbox/language/languagegraph.py]
def LanguageGraphAssociation__to_dict(self):
    node_dict = {'name': self.name, 'left': {'asset': self.left_field.asset.name, 'fieldname': self.left_field.fieldname, 'min': self.left_field.minimum, 'max': self.left_field.maximum}, 'right': {'asset': self.right_field.asset.name, 'fieldname': self.right_field.fieldname, 'min': self.right_field.minimum, 'max': self.right_field.maximum}, 'description': self.description}
    return node_dict


# ---- B205  LanguageGraphAssociation.contains_fieldname  (C15)  [maltoolbox/language/languagegraph.py]
def LanguageGraphAssociation__contains_fieldname(self, fieldname):
    if self.left_field.fieldname == fieldname:
        return True
    if self.right_field.fieldname == fieldname:
        return True
    return False


# ---- B206  LanguageGraphAssociation.contains_asset  (C15)  [maltoolbox/language/languagegraph.py]
def LanguageGraphAssociation__contains_asset(self, asset):
    if asset.is_subasset_of(self.left_field.asset):
        return True
    if asset.is_subasset_of(self.right_field.asset):
        return True
    return False


# ---- B207  LanguageGraphAssociation.get_opposite_fieldname  (C15)  [maltoolbox/language/languagegraph.py]
def LanguageGraphAssociation__get_opposite_fieldname(self, fieldname):
    if self.left_field.fieldname == fieldname:
        return self.right_field.fieldname
    if self.right_field.fieldname == fieldname:
        return self.left_field.fieldname
    msg = 'Requested fieldname "%s" from association %s which did not contain it!'
    raise LanguageGraphAssociationError(msg % (fieldname, self.name))


# ---- B208  LanguageGraphAssociation.get_opposite_asset  (C15)  [maltoolbox/language/languagegraph.py]
def LanguageGraphAssociation__get_opposite_asset(self, asset):
    if asset.is_subasset_of(self.left_field.asset):
        return self.right_field.asset
    if asset.is_subasset_of(self.right_field.asset):
        return self.left_field.asset
    return None


# ---- B209  LanguageGraphAttackStep.to_dict  (C15)  [maltoolbox/language/languagegraph.py]
def LanguageGraphAttackStep__to_dict(self):
    node_dict: dict[Any, Any] = {'name': self.name, 'type': self.type, 'asset': self.asset.name, 'ttc': self.ttc, 'children': {}, 'parents': {}, 'description': self.description}
    for child in self.children:
        node_dict['children'][child] = []
        for _, dep_chain in self.children[child]:
            if dep_chain:
                node_dict['children'][child].append(dep_chain.to_dict())
            else:
                node_dict['children'][child].append(None)
    for parent in self.parents:
        node_dict['parents'][parent] = []
        for _, dep_chain in self.parents[parent]:
            if dep_chain:
                node_dict['parents'][parent].append(dep_chain.to_dict())
            else:
                node_dict['parents'][parent].append(None)
    return node_dict


# ---- B210  LanguageGraphAttackStep.qualified_name  (C15)  [maltoolbox/language/languagegraph.py]
def LanguageGraphAttackStep__qualified_name(self):
    return f'{self.asset.name}:{self.name}'


# ---- B211  DependencyChain.to_dict  (C15)  [maltoolbox/language/languagegraph.py]
def DependencyChain__to_dict(self):
    match self.type:
        case 'union' | 'intersection' | 'difference':
            return {self.type: {'left': self.left_chain.to_dict() if self.left_chain else {}, 'right': self.right_chain.to_dict() if self.right_chain else {}}}
        case 'field':
            if not self.association:
                raise LanguageGraphAssociationError('Missing association for dep chain')
            return {self.association.name: {'fieldname': self.fieldname, 'next_association': self.next_link.to_dict() if self.next_link else {}}}
        case 'transitive':
            return {'transitive': self.next_link.to_dict() if self.next_link else {}}
        case 'subType':
            if not self.subtype:
                raise LanguageGraphException('No subtype for dependency chain')
            if not self.next_link:
                raise LanguageGraphException('No next link for subtype dependency chain')
            return {'subType': self.subtype.name, 'expression': self.next_link.to_dict()}
        case _:
            msg = 'Unknown associations chain element %s!'
            raise LanguageGraphAssociationError(msg % self.type)


# ---- B212  DependencyChain.__next__  (C15)  [maltoolbox/language/languagegraph.py]
def DependencyChain____next__(self):
    if self.current_link:
        dep_chain = self.current_link
        self.current_link = self.current_link.next_link
        return dep_chain
    raise StopIteration


# ---- B213  LanguageGraph.reverse_dep_chain  (C15)  [maltoolbox/language/languagegraph.py]
def LanguageGraph__reverse_dep_chain(self, dep_chain, reverse_chain):
    if not dep_chain:
        return reverse_chain
    else:
        match dep_chain.type:
            case 'union' | 'intersection' | 'difference':
                left_reverse_chain = self.reverse_dep_chain(dep_chain.left_chain, reverse_chain)
                right_reverse_chain = self.reverse_dep_chain(dep_chain.right_chain, reverse_chain)
                new_dep_chain = DependencyChain(type=dep_chain.type, next_link=None)
                new_dep_chain.left_chain = left_reverse_chain
                new_dep_chain.right_chain = right_reverse_chain
                return new_dep_chain
            case 'transitive':
                result_reverse_chain = self.reverse_dep_chain(dep_chain.next_link, reverse_chain)
                new_dep_chain = DependencyChain(type='transitive', next_link=result_reverse_chain)
                return new_dep_chain
            case 'field':
                association = dep_chain.association
                if not association:
                    raise LanguageGraphException('Missing association for dep chain')
                opposite_fieldname = association.get_opposite_fieldname(dep_chain.fieldname)
                new_dep_chain = DependencyChain(type='field', next_link=reverse_chain)
                new_dep_chain.fieldname = opposite_fieldname
                new_dep_chain.association = association
                return self.reverse_dep_chain(dep_chain.next_link, new_dep_chain)
            case 'subType':
                result_reverse_chain = self.reverse_dep_chain(dep_chain.next_link, reverse_chain)
                new_dep_chain = DependencyChain(type='subType', next_link=result_reverse_chain)
                new_dep_chain.subtype = dep_chain.subtype
                return new_dep_chain
            case _:
                msg = 'Unknown assoc chain element "%s"'
                raise LanguageGraphAssociationError(msg % dep_chain.type)


# ---- B214  LanguageGraph.process_step_expression  (C15)  [maltoolbox/language/languagegraph.py]
def LanguageGraph__process_step_expression(self, lang, target_asset, dep_chain, step_expression):
    if logger.isEnabledFor(logging.DEBUG):
        pass
    match step_expression['type']:
        case 'attackStep':
            return (target_asset, dep_chain, step_expression['name'])
        case 'union' | 'intersection' | 'difference':
            lh_target_asset, lh_dep_chain, _ = self.process_step_expression(lang, target_asset, dep_chain, step_expression['lhs'])
            rh_target_asset, rh_dep_chain, _ = self.process_step_expression(lang, target_asset, dep_chain, step_expression['rhs'])
            if not lh_target_asset.get_all_common_superassets(rh_target_asset):
                return (None, None, None)
            new_dep_chain = DependencyChain(type=step_expression['type'], next_link=None)
            new_dep_chain.left_chain = lh_dep_chain
            new_dep_chain.right_chain = rh_dep_chain
            return (lh_target_asset, new_dep_chain, None)
        case 'variable':
            variable_step_expr = self._get_variable_for_asset_type_by_name(target_asset.name, step_expression['name'])
            if variable_step_expr:
                return self.process_step_expression(lang, target_asset, dep_chain, variable_step_expr)
            else:
                return (None, None, None)
        case 'field':
            fieldname = step_expression['name']
            if not target_asset:
                return (None, None, None)
            new_target_asset = None
            for association in target_asset.associations:
                if association.left_field.fieldname == fieldname and target_asset.is_subasset_of(association.right_field.asset):
                    new_target_asset = association.left_field.asset
                if association.right_field.fieldname == fieldname and target_asset.is_subasset_of(association.left_field.asset):
                    new_target_asset = association.right_field.asset
                if new_target_asset:
                    new_dep_chain = DependencyChain(type='field', next_link=dep_chain)
                    new_dep_chain.fieldname = association.get_opposite_fieldname(fieldname)
                    new_dep_chain.association = association
                    return (new_target_asset, new_dep_chain, None)
            return (None, None, None)
        case 'transitive':
            result_target_asset, result_dep_chain, attack_step = self.process_step_expression(lang, target_asset, dep_chain, step_expression['stepExpression'])
            new_dep_chain = DependencyChain(type='transitive', next_link=result_dep_chain)
            return (result_target_asset, new_dep_chain, attack_step)
        case 'subType':
            subtype_name = step_expression['subType']
            result_target_asset, result_dep_chain, attack_step = self.process_step_expression(lang, target_asset, dep_chain, step_expression['stepExpression'])
            subtype_asset = next((asset for asset in self.assets if asset.name == subtype_name), None)
            if not subtype_asset:
                msg = 'Failed to find subtype attackstep "{subtype_name}"'
                raise LanguageGraphException(msg)
            if not subtype_asset.is_subasset_of(result_target_asset):
                return (None, None, None)
            new_dep_chain = DependencyChain(type='subType', next_link=result_dep_chain)
            new_dep_chain.subtype = subtype_asset
            return (subtype_asset, new_dep_chain, attack_step)
        case 'collect':
            lh_target_asset, lh_dep_chain, _ = self.process_step_expression(lang, target_asset, dep_chain, step_expression['lhs'])
            rh_target_asset, rh_dep_chain, rh_attack_step_name = self.process_step_expression(lang, lh_target_asset, lh_dep_chain, step_expression['rhs'])
            return (rh_target_asset, rh_dep_chain, rh_attack_step_name)
        case _:
            return (None, None, None)


# ---- B215  LanguageGraph._get_variable_for_asset_type_by_name  (C15)  [maltoolbox/language/languagegraph.py]
def LanguageGraph___get_variable_for_asset_type_by_name(self, asset_type, variable_name):
    asset = next((asset for asset in self._lang_spec['assets'] if asset['name'] == asset_type), None)
    if not asset:
        msg = 'Failed to find asset type %s when looking for variable.'
        raise LanguageGraphException(msg % asset_type)
    variable_dict = next((variable for variable in asset['variables'] if variable['name'] == variable_name), None)
    if not variable_dict:
        if asset['superAsset']:
            variable_dict = self._get_variable_for_asset_type_by_name(asset['superAsset'], variable_name)
        if variable_dict:
            return variable_dict
        else:
            msg = 'Failed to find variable %s in %s lang specification.'
            raise LanguageGraphException(msg % (variable_name, asset_type))
    return variable_dict['stepExpression']


# ---- B216  LanguageGraph.get_asset_by_name  (C15)  [maltoolbox/language/languagegraph.py]
def LanguageGraph__get_asset_by_name(self, asset_name):
    for asset in self.assets:
        if asset.name == asset_name:
            return asset
    return None


# ---- B217  LanguageGraph._to_dict  (C15)  [maltoolbox/language/languagegraph.py]
def LanguageGraph___to_dict(self):
    serialized_assets = []
    for asset in self.assets:
        serialized_assets.append(asset.to_dict())
    serialized_associations = []
    for associations in self.associations:
        serialized_associations.append(associations.to_dict())
    serialized_attack_steps = []
    for attack_step in self.attack_steps:
        serialized_attack_steps.append(attack_step.to_dict())
    serialized_graph = {'Assets': serialized_assets, 'Associations': serialized_associations, 'Attack Steps': serialized_attack_steps}
    return serialized_graph


# ---- B218  LanguageGraph.load_from_file  (C15)  [maltoolbox/language/languagegraph.py]
def LanguageGraph__load_from_file(cls, filename):
    lang_graph = None
    if filename.endswith('.mal'):
        lang_graph = cls.from_mal_spec(filename)
    elif filename.endswith('.mar'):
        lang_graph = cls.from_mar_archive(filename)
    elif filename.endswith(('yaml', 'yml')):
        lang_graph = cls._from_dict(load_dict_from_yaml_file(filename))
    elif filename.endswith('json'):
        lang_graph = cls._from_dict(load_dict_from_json_file(filename))
    if lang_graph:
        return lang_graph
    raise TypeError('Unknown file extension, expected json/mal/mar/yml/yaml')


# ---- B219  LanguageGraphAsset.get_all_common_superassets  (C15)  [maltoolbox/language/languagegraph.py]
def LanguageGraphAsset__get_all_common_superassets(self, other):
    self_superassets = set((asset.name for asset in self.get_all_superassets()))
    other_superassets = set((asset.name for asset in other.get_all_superassets()))
    return self_superassets.intersection(other_superassets)


# ---- B300  _process_step_expression  (C01, C16)  [maltoolbox/attackgraph/attackgraph.py]
def _process_step_expression(lang_graph, model, target_assets, step_expression):
    if logger.isEnabledFor(logging.DEBUG):
        pass
    match step_expression['type']:
        case 'attackStep':
            return (target_assets, step_expression['name'])
        case 'union' | 'intersection' | 'difference':
            lh_targets, lh_attack_steps = _process_step_expression(lang_graph, model, target_assets, step_expression['lhs'])
            rh_targets, rh_attack_steps = _process_step_expression(lang_graph, model, target_assets, step_expression['rhs'])
            new_target_assets = []
            match step_expression['type']:
                case 'union':
                    new_target_assets = lh_targets
                    for ag_node in rh_targets:
                        if next((lnode for lnode in new_target_assets if lnode.id == ag_node.id), None) is None:
                            new_target_assets.append(ag_node)
                case 'intersection':
                    for ag_node in rh_targets:
                        if next((lnode for lnode in lh_targets if lnode.id == ag_node.id), None):
                            new_target_assets.append(ag_node)
                case 'difference':
                    for ag_node in lh_targets:
                        if next((rnode for rnode in rh_targets if rnode.id == ag_node.id), None) is None:
                            new_target_assets.append(ag_node)
            return (new_target_assets, None)
        case 'variable':
            for target_asset in target_assets:
                if hasattr(target_asset, 'type'):
                    variable_step_expr = lang_graph._get_variable_for_asset_type_by_name(target_asset.type, step_expression['name'])
                    return _process_step_expression(lang_graph, model, target_assets, variable_step_expr)
            return ([], None)
        case 'field':
            new_target_assets = []
            for target_asset in target_assets:
                new_target_assets.extend(model.get_associated_assets_by_field_name(target_asset, step_expression['name']))
            return (new_target_assets, None)
        case 'transitive':
            new_target_assets = []
            visited_ids = set()
            frontier = target_assets
            while frontier:
                next_frontier = []
                for target_asset in frontier:
                    for asset in model.get_associated_assets_by_field_name(target_asset, step_expression['stepExpression']['name']):
                        if asset.id not in visited_ids:
                            visited_ids.add(asset.id)
                            new_target_assets.append(asset)
                            next_frontier.append(asset)
                frontier = next_frontier
            return (new_target_assets, None)
        case 'subType':
            new_target_assets = []
            for target_asset in target_assets:
                assets, _ = _process_step_expression(lang_graph, model, target_assets, step_expression['stepExpression'])
                new_target_assets.extend(assets)
            selected_new_target_assets = []
            for asset in new_target_assets:
                lang_graph_asset = lang_graph.get_asset_by_name(asset.type)
                if not lang_graph_asset:
                    raise LookupError(f'Failed to find asset "{asset.type}" in the language graph.')
                lang_graph_subtype_asset = lang_graph.get_asset_by_name(step_expression['subType'])
                if not lang_graph_subtype_asset:
                    raise LookupError(f'Failed to find asset "{step_expression['subType']}" in the language graph.')
                if lang_graph_asset.is_subasset_of(lang_graph_subtype_asset):
                    selected_new_target_assets.append(asset)
            return (selected_new_target_assets, None)
        case 'collect':
            lh_targets, _ = _process_step_expression(lang_graph, model, target_assets, step_expression['lhs'])
            return _process_step_expression(lang_graph, model, lh_targets, step_expression['rhs'])
        case _:
            return ([], None)


# ---- B301  AttackGraph._generate_graph  (C01, C02)  [maltoolbox/attackgraph/attackgraph.py]
def AttackGraph___generate_graph(self):
    if not self.model:
        msg = 'Can not generate AttackGraph without model'
        raise AttackGraphException(msg)
    for asset in self.model.assets:
        attack_step_nodes = []
        attack_steps = self.lang_graph._get_attacks_for_asset_type(asset.type)
        for attack_step_name, attack_step_attribs in attack_steps.items():
            defense_status = None
            existence_status = None
            node_name = asset.name + ':' + attack_step_name
            match attack_step_attribs['type']:
                case 'defense':
                    defense_status = getattr(asset, attack_step_name)
                case 'exist' | 'notExist':
                    target_assets, attack_step = _process_step_expression(self.lang_graph, self.model, [asset], attack_step_attribs['requires']['stepExpressions'][0])
                    existence_status = target_assets != []
            mitre_info = attack_step_attribs['meta']['mitre'] if 'mitre' in attack_step_attribs['meta'] else None
            ag_node = AttackGraphNode(type=attack_step_attribs['type'], asset=asset, name=attack_step_name, ttc=attack_step_attribs['ttc'], children=[], parents=[], defense_status=defense_status, existence_status=existence_status, is_viable=True, is_necessary=True, mitre_info=mitre_info, tags=attack_step_attribs['tags'], compromised_by=[])
            ag_node.attributes = attack_step_attribs
            attack_step_nodes.append(ag_node)
            self.add_node(ag_node)
        asset.attack_step_nodes = attack_step_nodes
    for ag_node in self.nodes:
        step_expressions = ag_node.attributes['reaches']['stepExpressions'] if isinstance(ag_node.attributes, dict) and ag_node.attributes['reaches'] else []
        for step_expression in step_expressions:
            target_assets, attack_step = _process_step_expression(self.lang_graph, self.model, [ag_node.asset], step_expression)
            for target in target_assets:
                target_node_full_name = target.name + ':' + attack_step
                target_node = self.get_node_by_full_name(target_node_full_name)
                if not target_node:
                    msg = 'Failed to find target node "%s" to link with for attack step "%s"(%d)!'
                    raise AttackGraphStepExpressionError(msg % (target_node_full_name, ag_node.full_name, ag_node.id))
                ag_node.children.append(target_node)
                target_node.parents.append(ag_node)


# ---- B313  LanguageGraph._generate_graph  (C15, C06)  [maltoolbox/language/languagegraph.py]
def LanguageGraph___generate_graph(self):
    for asset in self._lang_spec['assets']:
        asset_node = LanguageGraphAsset(name=asset['name'], associations=[], attack_steps=[], description=asset['meta'], super_assets=[], sub_assets=[], is_abstract=asset['isAbstract'])
        self.assets.append(asset_node)
    for asset_info in self._lang_spec['assets']:
        asset = next((asset for asset in self.assets if asset.name == asset_info['name']), None)
        if asset_info['superAsset']:
            super_asset = next((asset for asset in self.assets if asset.name == asset_info['superAsset']), None)
            if not super_asset:
                msg = 'Failed to find super asset "%s" for asset "%s"!'
                raise LanguageGraphSuperAssetNotFoundError(msg % (asset_info['superAsset'], asset_info['name']))
            super_asset.sub_assets.append(asset)
            asset.super_assets.append(super_asset)
    for asset in self.assets:
        associations = self._get_associations_for_asset_type(asset.name)
        for association in associations:
            left_asset = next((asset for asset in self.assets if asset.name == association['leftAsset']), None)
            if not left_asset:
                msg = 'Left asset "%s" for association "%s" not found!'
                raise LanguageGraphAssociationError(msg % (association['leftAsset'], association['name']))
            right_asset = next((asset for asset in self.assets if asset.name == association['rightAsset']), None)
            if not right_asset:
                msg = 'Right asset "%s" for association "%s" not found!'
                raise LanguageGraphAssociationError(msg % (association['rightAsset'], association['name']))
            assoc_node = next((assoc for assoc in self.associations if assoc.name == association['name'] and assoc.left_field.asset == left_asset and (assoc.right_field.asset == right_asset)), None)
            if assoc_node:
                continue
            assoc_node = LanguageGraphAssociation(name=association['name'], left_field=LanguageGraphAssociationField(left_asset, association['leftField'], association['leftMultiplicity']['min'], association['leftMultiplicity']['max']), right_field=LanguageGraphAssociationField(right_asset, association['rightField'], association['rightMultiplicity']['min'], association['rightMultiplicity']['max']), description=association['meta'])
            associated_assets = [left_asset, right_asset]
            while associated_assets != []:
                asset = associated_assets.pop()
                associated_assets.extend(asset.sub_assets)
                if assoc_node not in asset.associations:
                    asset.associations.append(assoc_node)
            self.associations.append(assoc_node)
    for asset in self.assets:
        attack_steps = self._get_attacks_for_asset_type(asset.name)
        for attack_step_name, attack_step_attribs in attack_steps.items():
            attack_step_node = LanguageGraphAttackStep(name=attack_step_name, type=attack_step_attribs['type'], asset=asset, ttc=attack_step_attribs['ttc'], children={}, parents={}, description=attack_step_attribs['meta'])
            attack_step_node.attributes = attack_step_attribs
            asset.attack_steps.append(attack_step_node)
            self.attack_steps.append(attack_step_node)
    for attack_step in self.attack_steps:
        step_expressions = attack_step.attributes['reaches']['stepExpressions'] if attack_step.attributes['reaches'] else []
        for step_expression in step_expressions:
            target_asset, dep_chain, attack_step_name = self.process_step_expression(self._lang_spec, attack_step.asset, None, step_expression)
            if not target_asset:
                msg = 'Failed to find target asset to link with for step expression:\n%s'
                raise LanguageGraphStepExpressionError(msg % json.dumps(step_expression, indent=2))
            target_attack_step = next((attack_step for attack_step in target_asset.attack_steps if attack_step.name == attack_step_name), None)
            if not target_attack_step:
                msg = 'Failed to find target attack step %s on %s to link with for step expression:\n%s'
                raise LanguageGraphStepExpressionError(msg % (attack_step_name, target_asset.name, json.dumps(step_expression, indent=2)))
            if attack_step.name in target_attack_step.parents:
                target_attack_step.parents[attack_step.name].append((attack_step, dep_chain))
            else:
                target_attack_step.parents[attack_step.name] = [(attack_step, dep_chain)]
            if target_attack_step.name in attack_step.children:
                attack_step.children[target_attack_step.name].append((target_attack_step, self.reverse_dep_chain(dep_chain, None)))
            else:
                attack_step.children[target_attack_step.name] = [(target_attack_step, self.reverse_dep_chain(dep_chain, None))]


# ---- B302  AttackGraph.add_node  (C09, C02)  [maltoolbox/attackgraph/attackgraph.py]
def AttackGraph__add_node(self, node, node_id=None):
    if logger.isEnabledFor(logging.DEBUG):
        pass
    new_node_id = node_id if node_id is not None else self.next_node_id
    if new_node_id in self._id_to_node:
        raise ValueError(f'Node index {new_node_id} already in use.')
    node.id = new_node_id
    self.next_node_id = max(node.id + 1, self.next_node_id)
    self.nodes.append(node)
    self._id_to_node[node.id] = node
    self._full_name_to_node[node.full_name] = node


# ---- B303  AttackGraph.remove_node  (C09, C13)  [maltoolbox/attackgraph/attackgraph.py]
def AttackGraph__remove_node(self, node):
    if logger.isEnabledFor(logging.DEBUG):
        pass
    for child in node.children:
        child.parents.remove(node)
    for parent in node.parents:
        parent.children.remove(node)
    for attacker in list(node.compromised_by):
        attacker.undo_compromise(node)
    for attacker in self.attackers:
        if node in attacker.entry_points:
            attacker.entry_points.remove(node)
    self.nodes.remove(node)
    if not isinstance(node.id, int):
        raise ValueError(f'Invalid node id.')
    del self._id_to_node[node.id]
    del self._full_name_to_node[node.full_name]


# ---- B304  AttackGraph.add_attacker  (C09, C11)  [maltoolbox/attackgraph/attackgraph.py]
def AttackGraph__add_attacker(self, attacker, attacker_id=None, entry_points=[], reached_attack_steps=[]):
    if logger.isEnabledFor(logging.DEBUG):
        if attacker_id is not None:
            pass
    attacker.id = attacker_id if attacker_id is not None else self.next_attacker_id
    if attacker.id in self._id_to_attacker:
        raise ValueError(f'Attacker index {attacker_id} already in use.')
    self.next_attacker_id = max(attacker.id + 1, self.next_attacker_id)
    for node_id in reached_attack_steps:
        node = self.get_node_by_id(node_id)
        if node:
            attacker.compromise(node)
        else:
            msg = 'Could not find node with id %din reached attack steps.'
            raise AttackGraphException(msg % node_id)
    for node_id in entry_points:
        node = self.get_node_by_id(int(node_id))
        if node:
            if node not in attacker.entry_points:
                attacker.entry_points.append(node)
        else:
            msg = 'Could not find node with id %din attacker entrypoints.'
            raise AttackGraphException(msg % node_id)
    self.attackers.append(attacker)
    self._id_to_attacker[attacker.id] = attacker


# ---- B305  AttackGraph.remove_attacker  (C09, C11)  [maltoolbox/attackgraph/attackgraph.py]
def AttackGraph__remove_attacker(self, attacker):
    if logger.isEnabledFor(logging.DEBUG):
        pass
    for node in list(attacker.reached_attack_steps):
        attacker.undo_compromise(node)
    self.attackers.remove(attacker)
    if not isinstance(attacker.id, int):
        raise ValueError(f'Invalid attacker id.')
    del self._id_to_attacker[attacker.id]


# ---- B306  AttackGraph.attach_attackers  (C11, C09)  [maltoolbox/attackgraph/attackgraph.py]
def AttackGraph__attach_attackers(self):
    if not self.model:
        msg = 'Can not attach attackers without a model'
        raise AttackGraphException(msg)
    for attacker_info in self.model.attackers:
        if not attacker_info.name:
            msg = 'Can not attach attacker without name'
            raise AttackGraphException(msg)
        attacker = Attacker(name=attacker_info.name, entry_points=[], reached_attack_steps=[])
        self.add_attacker(attacker)
        for asset, attack_steps in attacker_info.entry_points:
            for attack_step in attack_steps:
                full_name = asset.name + ':' + attack_step
                ag_node = self.get_node_by_full_name(full_name)
                if not ag_node:
                    continue
                attacker.compromise(ag_node)
        attacker.entry_points = list(attacker.reached_attack_steps)


# ---- B307  AttackGraph._to_dict  (C10)  [maltoolbox/attackgraph/attackgraph.py]
def AttackGraph___to_dict(self):
    serialized_attack_steps = {}
    serialized_attackers = {}
    for ag_node in self.nodes:
        serialized_attack_steps[ag_node.full_name] = ag_node.to_dict()
    for attacker in self.attackers:
        serialized_attackers[attacker.name] = attacker.to_dict()
    return {'attack_steps': serialized_attack_steps, 'attackers': serialized_attackers}


# ---- B308  AttackGraph._from_dict  (C10)  [maltoolbox/attackgraph/attackgraph.py]
def AttackGraph___from_dict(cls, serialized_object, model=None):
    attack_graph = AttackGraph()
    attack_graph.model = model
    serialized_attack_steps = serialized_object['attack_steps']
    serialized_attackers = serialized_object['attackers']
    for node_full_name, node_dict in serialized_attack_steps.items():
        node_asset = None
        if model and 'asset' in node_dict:
            node_asset = model.get_asset_by_name(node_dict['asset'])
            if node_asset is None:
                msg = 'Failed to find asset with id %swhen loading from attack graph dict'
                raise LookupError(msg % node_dict['asset'])
        ag_node = AttackGraphNode(type=node_dict['type'], name=node_dict['name'], ttc=node_dict['ttc'], asset=node_asset)
        if node_asset:
            if hasattr(node_asset, 'attack_step_nodes'):
                node_attack_steps = list(node_asset.attack_step_nodes)
                node_attack_steps.append(ag_node)
                node_asset.attack_step_nodes = node_attack_steps
            else:
                node_asset.attack_step_nodes = [ag_node]
        ag_node.defense_status = float(node_dict['defense_status']) if 'defense_status' in node_dict else None
        ag_node.existence_status = node_dict['existence_status'] == 'True' if 'existence_status' in node_dict else None
        ag_node.is_viable = node_dict['is_viable'] == 'True' if 'is_viable' in node_dict else True
        ag_node.is_necessary = node_dict['is_necessary'] == 'True' if 'is_necessary' in node_dict else True
        ag_node.mitre_info = str(node_dict['mitre_info']) if 'mitre_info' in node_dict else None
        ag_node.tags = node_dict['tags'] if 'tags' in node_dict else []
        ag_node.extras = node_dict.get('extras', {})
        attack_graph.add_node(ag_node, node_id=node_dict['id'])
    for node_full_name, node_dict in serialized_attack_steps.items():
        _ag_node = attack_graph.get_node_by_id(node_dict['id'])
        if not isinstance(_ag_node, AttackGraphNode):
            msg = 'Failed to find node with id %s when loading attack graph from dict'
            raise LookupError(msg % node_dict['id'])
        else:
            for child_id in node_dict['children']:
                child = attack_graph.get_node_by_id(int(child_id))
                if child is None:
                    msg = 'Failed to find child node with id %s when loading from attack graph from dict'
                    raise LookupError(msg % child_id)
                _ag_node.children.append(child)
            for parent_id in node_dict['parents']:
                parent = attack_graph.get_node_by_id(int(parent_id))
                if parent is None:
                    msg = 'Failed to find parent node with id %s when loading from attack graph from dict'
                    raise LookupError(msg % parent_id)
                _ag_node.parents.append(parent)
    for attacker_name, attacker in serialized_attackers.items():
        ag_attacker = Attacker(name=attacker['name'], entry_points=[], reached_attack_steps=[])
        attack_graph.add_attacker(attacker=ag_attacker, attacker_id=int(attacker['id']), entry_points=attacker['entry_points'].keys(), reached_attack_steps=[int(node_id) for node_id in attacker['reached_attack_steps'].keys()])
    return attack_graph


# ---- B309  AttackGraphNode.to_dict  (C10)  [maltoolbox/attackgraph/node.py]
def AttackGraphNode__to_dict(self):
    node_dict: dict = {'id': self.id, 'type': self.type, 'name': self.name, 'ttc': self.ttc, 'children': {}, 'parents': {}, 'compromised_by': [attacker.name for attacker in self.compromised_by]}
    for child in self.children:
        node_dict['children'][child.id] = child.full_name
    for parent in self.parents:
        node_dict['parents'][parent.id] = parent.full_name
    if self.asset is not None:
        node_dict['asset'] = str(self.asset.name)
    if self.defense_status is not None:
        node_dict['defense_status'] = str(self.defense_status)
    if self.existence_status is not None:
        node_dict['existence_status'] = str(self.existence_status)
    if self.is_viable is not None:
        node_dict['is_viable'] = str(self.is_viable)
    if self.is_necessary is not None:
        node_dict['is_necessary'] = str(self.is_necessary)
    if self.mitre_info is not None:
        node_dict['mitre_info'] = str(self.mitre_info)
    if self.tags:
        node_dict['tags'] = list(self.tags)
    if self.extras:
        node_dict['extras'] = self.extras
    return node_dict


# ---- B310  Attacker.to_dict  (C10)  [maltoolbox/attackgraph/attacker.py]
def Attacker__to_dict(self):
    attacker_dict: dict = {'id': self.id, 'name': self.name, 'entry_points': {}, 'reached_attack_steps': {}}
    for entry_point in self.entry_points:
        attacker_dict['entry_points'][entry_point.id] = entry_point.full_name
    for attack_step in self.reached_attack_steps:
        attacker_dict['reached_attack_steps'][attack_step.id] = attack_step.full_name
    return attacker_dict


# ---- B311  AttackGraph.load_from_file  (C10)  [maltoolbox/attackgraph/attackgraph.py]
def AttackGraph__load_from_file(cls, filename, model=None):
    if model is not None:
        pass
    serialized_attack_graph = None
    if filename.endswith(('.yml', '.yaml')):
        serialized_attack_graph = load_dict_from_yaml_file(filename)
    elif filename.endswith('.json'):
        serialized_attack_graph = load_dict_from_json_file(filename)
    else:
        raise ValueError('Unknown file extension, expected json/yml/yaml')
    return cls._from_dict(serialized_attack_graph, model=model)


# ---- B312  AttackGraph.save_to_file  (C10)  [maltoolbox/attackgraph/attackgraph.py]
def AttackGraph__save_to_file(self, filename):
    return save_dict_to_file(filename, self._to_dict())


# ---- B400  Model._to_dict  (C07)  [maltoolbox/model.py]
def Model___to_dict(self):
    contents: dict[str, Any] = {'metadata': {}, 'assets': {}, 'associations': [], 'attackers': {}}
    contents['metadata'] = {'name': self.name, 'langVersion': self.lang_classes_factory.lang_graph.metadata['version'], 'langID': self.lang_classes_factory.lang_graph.metadata['id'], 'malVersion': '0.1.0-SNAPSHOT', 'MAL-Toolbox Version': __version__, 'info': 'Created by the mal-toolbox model python module.'}
    for asset in self.assets:
        asset_id, asset_dict = self.asset_to_dict(asset)
        contents['assets'][int(asset_id)] = asset_dict
    for association in self.associations:
        assoc_dict = self.association_to_dict(association)
        contents['associations'].append(assoc_dict)
    for attacker in self.attackers:
        attacker_id, attacker_dict = self.attacker_to_dict(attacker)
        contents['attackers'][attacker_id] = attacker_dict
    return contents


# ---- B401  Model._from_dict  (C07)  [maltoolbox/model.py]
def Model___from_dict(cls, serialized_object, lang_classes_factory):
    maltoolbox_version = serialized_object['metadata']['MAL Toolbox Version'] if 'MAL Toolbox Version' in serialized_object['metadata'] else __version__
    model = Model(serialized_object['metadata']['name'], lang_classes_factory, mt_version=maltoolbox_version)
    for asset_id, asset_object in serialized_object['assets'].items():
        if logger.isEnabledFor(logging.DEBUG):
            pass
        asset_object = asset_object if isinstance(asset_object, dict) else {'type': asset_object, 'name': f'{asset_object}:{asset_id}'}
        asset = getattr(model.lang_classes_factory.ns, asset_object['type'])(name=asset_object['name'])
        if 'extras' in asset_object:
            asset.extras = asset_object['extras']
        for defense in (defenses := asset_object.get('defenses', [])):
            setattr(asset, defense, float(defenses[defense]))
        model.add_asset(asset, asset_id=int(asset_id))
    for assoc_entry in serialized_object.get('associations', []):
        assoc = next((key for key in assoc_entry if key != 'extras'))
        assoc_fields = assoc_entry[assoc]
        association = getattr(model.lang_classes_factory.ns, assoc)()
        for field, targets in assoc_fields.items():
            targets = targets if isinstance(targets, list) else [targets]
            setattr(association, field, [model.get_asset_by_id(int(id)) for id in targets])
        if 'extras' in assoc_entry:
            association.extras = assoc_entry['extras']
        model.add_association(association)
    if 'attackers' in serialized_object:
        attackers_info = serialized_object['attackers']
        for attacker_id in attackers_info:
            attacker = AttackerAttachment(name=attackers_info[attacker_id]['name'])
            attacker.entry_points = []
            for asset_id in attackers_info[attacker_id]['entry_points']:
                attacker.entry_points.append((model.get_asset_by_id(int(asset_id)), attackers_info[attacker_id]['entry_points'][asset_id]['attack_steps']))
            model.add_attacker(attacker, attacker_id=int(attacker_id))
    return model


# ---- B402  Model.asset_to_dict  (C07)  [maltoolbox/model.py]
def Model__asset_to_dict(self, asset):
    asset_dict: dict[str, Any] = {'name': str(asset.name), 'type': str(asset.type)}
    defenses = self.get_asset_defenses(asset)
    if defenses:
        asset_dict['defenses'] = defenses
    if asset.extras:
        asset_dict['extras'] = asset.extras.as_dict()
    return (asset.id, asset_dict)


# ---- B403  Model.association_to_dict  (C07)  [maltoolbox/model.py]
def Model__association_to_dict(self, association):
    left_field_name, right_field_name = self.get_association_field_names(association)
    left_field = getattr(association, left_field_name)
    right_field = getattr(association, right_field_name)
    association_dict = {association.__class__.__name__: {str(left_field_name): [int(asset.id) for asset in left_field], str(right_field_name): [int(asset.id) for asset in right_field]}}
    if association.extras:
        association_dict['extras'] = association.extras.as_dict()
    return association_dict


# ---- B404  Model.attacker_to_dict  (C07)  [maltoolbox/model.py]
def Model__attacker_to_dict(self, attacker):
    attacker_dict: dict[str, Any] = {'name': str(attacker.name), 'entry_points': {}}
    for asset, attack_steps in attacker.entry_points:
        attacker_dict['entry_points'][int(asset.id)] = {'attack_steps': attack_steps}
    return (attacker.id, attacker_dict)


# ---- B405  Model.get_asset_defenses  (C07, C02)  [maltoolbox/model.py]
def Model__get_asset_defenses(self, asset, include_defaults=False):
    defenses = {}
    for key, value in asset._properties.items():
        property_schema = self.lang_classes_factory.json_schema['definitions']['LanguageAsset']['definitions'][asset.type]['properties'][key]
        if 'maximum' not in property_schema:
            continue
        if not include_defaults and value == value.default():
            continue
        defenses[key] = float(value)
    return defenses


# ---- B406  Model.load_from_file  (C07)  [maltoolbox/model.py]
def Model__load_from_file(cls, filename, lang_classes_factory):
    serialized_model = None
    if filename.endswith(('.yml', '.yaml')):
        serialized_model = load_dict_from_yaml_file(filename)
    elif filename.endswith('.json'):
        serialized_model = load_dict_from_json_file(filename)
    else:
        raise ValueError('Unknown file extension, expected json/yml/yaml')
    return cls._from_dict(serialized_model, lang_classes_factory)


# ---- B407  Model.save_to_file  (C07)  [maltoolbox/model.py]
def Model__save_to_file(self, filename):
    return save_dict_to_file(filename, self._to_dict())


# ---- B408  save_dict_to_file  (C07, C10)  [maltoolbox/file_utils.py]
def save_dict_to_file(filename, dictionary):
    if filename.endswith(('.yml', '.yaml')):
        save_dict_to_yaml_file(filename, dictionary)
    elif filename.endswith('.json'):
        save_dict_to_json_file(filename, dictionary)
    else:
        raise ValueError('Unknown file extension, expected json/yml/yaml')


# ---- B410  load_model_from_version_0_0_39._process_model  (C18)  [maltoolbox/translators/updater.py]
def load_model_from_version_0_0_39___process_model(model_dict, lang_classes_factory):
    model = Model(model_dict['metadata']['name'], lang_classes_factory)
    for asset_id, asset_object in model_dict['assets'].items():
        asset_object = asset_object if isinstance(asset_object, dict) else {'metaconcept': asset_object, 'name': f'{asset_object}:{asset_id}'}
        asset = getattr(model.lang_classes_factory.ns, asset_object['metaconcept'])(name=asset_object['name'])
        for defense in (defenses := asset_object.get('defenses', [])):
            setattr(asset, defense, float(defenses[defense]))
        model.add_asset(asset, asset_id=int(asset_id))
    for assoc_dict in model_dict.get('associations', []):
        association = getattr(model.lang_classes_factory.ns, assoc_dict.pop('metaconcept'))()
        assoc_dict = assoc_dict.get('association', assoc_dict)
        for field, targets in assoc_dict.items():
            targets = targets if isinstance(targets, list) else [targets]
            setattr(association, field, [model.get_asset_by_id(int(id)) for id in targets])
        model.add_association(association)
    if 'attackers' in model_dict:
        attackers_info = model_dict['attackers']
        for attacker_id in attackers_info:
            attacker = AttackerAttachment(name=attackers_info[attacker_id]['name'])
            attacker.entry_points = []
            for asset_id in attackers_info[attacker_id]['entry_points']:
                attacker.entry_points.append((model.get_asset_by_id(int(asset_id)), attackers_info[attacker_id]['entry_points'][asset_id]['attack_steps']))
            model.add_attacker(attacker, attacker_id=int(attacker_id))
    return model


# ---- B411  load_model_from_scad_archive  (C18)  [maltoolbox/translators/securicad.py]
def load_model_from_scad_archive(scad_archive, lang_graph, lang_classes_factory):
    with zipfile.ZipFile(scad_archive, 'r') as archive:
        filelist = archive.namelist()
        model_file = next(filter(lambda x: x[-4:] == '.eom', filelist))
        scad_model = archive.read(model_file)
        root = ET.fromstring(scad_model)
    instance_model = Model(scad_archive, lang_classes_factory)
    for child in root.iter('objects'):
        if logger.isEnabledFor(logging.DEBUG):
            pass
        if child.attrib['metaConcept'] == 'Attacker':
            attacker_obj_id = int(child.attrib['id'])
            attacker_at = AttackerAttachment()
            attacker_at.entry_points = []
            instance_model.add_attacker(attacker_at, attacker_id=attacker_obj_id)
            continue
        if not hasattr(lang_classes_factory.ns, child.attrib['metaConcept']):
            return None
        asset = getattr(lang_classes_factory.ns, child.attrib['metaConcept'])(name=child.attrib['name'])
        asset_id = int(child.attrib['id'])
        for subchild in child.iter('evidenceAttributes'):
            defense_name = subchild.attrib['metaConcept']
            defense_name = defense_name[0].lower() + defense_name[1:]
            for distrib in subchild.iter('evidenceDistribution'):
                for d in distrib.iter('parameters'):
                    if 'value' in d.attrib:
                        dist_value = d.attrib['value']
                        setattr(asset, defense_name, float(dist_value))
        instance_model.add_asset(asset, asset_id)
    for child in root.iter('associations'):
        left_id = int(child.attrib['targetObject'])
        right_id = int(child.attrib['sourceObject'])
        attacker_id = None
        if child.attrib['sourceProperty'] == 'firstSteps':
            attacker_id = right_id
            target_id = left_id
            target_prop = child.attrib['targetProperty']
        elif child.attrib['targetProperty'] == 'firstSteps':
            attacker_id = left_id
            target_id = right_id
            target_prop = child.attrib['sourceProperty']
        if attacker_id is not None:
            attacker = instance_model.get_attacker_by_id(attacker_id)
            if not attacker:
                return None
            target_asset = instance_model.get_asset_by_id(target_id)
            if not target_asset:
                return None
            attacker.add_entry_point(target_asset, target_prop.split('.')[0])
            continue
        left_asset = instance_model.get_asset_by_id(left_id)
        if not left_asset:
            return None
        right_asset = instance_model.get_asset_by_id(right_id)
        if not right_asset:
            return None
        left_field = child.attrib['sourceProperty']
        right_field = child.attrib['targetProperty']
        lang_graph_assoc = lang_graph.get_association_by_fields_and_assets(left_field, right_field, left_asset.type, right_asset.type)
        if not lang_graph_assoc:
            raise LookupError('Failed to find ("%s", "%s", "%s", "%s")association in lang specification.' % (left_asset.type, right_asset.type, left_field, right_field))
            return None
        assoc_name = lang_classes_factory.get_association_by_signature(lang_graph_assoc.name, lang_graph_assoc.left_field.asset.name, lang_graph_assoc.right_field.asset.name)
        if assoc_name is None:
            return None
        assoc = getattr(lang_classes_factory.ns, assoc_name)()
        setattr(assoc, left_field, [left_asset])
        setattr(assoc, right_field, [right_asset])
        instance_model.add_association(assoc)
    return instance_model


# ---- B420  get_model  (C19)  [maltoolbox/ingestors/neo4j.py]
def get_model(uri, username, password, dbname, lang_graph, lang_classes_factory):
    g = Graph(uri=uri, user=username, password=password, name=dbname)
    instance_model = Model('Neo4j imported model', lang_classes_factory)
    assets_results = g.run('MATCH (a) WHERE a.type IS NOT NULL RETURN DISTINCT a').data()
    for asset in assets_results:
        asset_data = dict(asset['a'])
        if asset_data['type'] == 'Attacker':
            attacker_id = int(asset_data['asset_id'])
            attacker = AttackerAttachment()
            attacker.entry_points = []
            instance_model.add_attacker(attacker, attacker_id=attacker_id)
            continue
        if not hasattr(lang_classes_factory.ns, asset_data['type']):
            msg = 'Failed to find %s asset in language specification!'
            raise LookupError(msg % asset_data['type'])
        asset_obj = getattr(lang_classes_factory.ns, asset_data['type'])(name=asset_data['name'])
        asset_id = int(asset_data['asset_id'])
        instance_model.add_asset(asset_obj, asset_id)
    assocs_results = g.run('MATCH (a)-[r1]->(b),(a)<-[r2]-(b) WHERE a.type IS NOT NULL RETURN DISTINCT a, r1, r2, b').data()
    for assoc in assocs_results:
        left_field = list(assoc['r1'].types())[0]
        right_field = list(assoc['r2'].types())[0]
        left_asset = dict(assoc['a'])
        right_asset = dict(assoc['b'])
        left_id = int(left_asset['asset_id'])
        right_id = int(right_asset['asset_id'])
        attacker_id = None
        if left_field == 'firstSteps':
            attacker_id = right_id
            target_id = left_id
            target_prop = right_field
        elif right_field == 'firstSteps':
            attacker_id = left_id
            target_id = right_id
            target_prop = left_field
        if attacker_id is not None:
            attacker = instance_model.get_attacker_by_id(attacker_id)
            if not attacker:
                msg = 'Failed to find attacker with id %s in model!'
                raise LookupError(msg % attacker_id)
            target_asset = instance_model.get_asset_by_id(target_id)
            if not target_asset:
                msg = 'Failed to find asset with id %d in model!'
                raise LookupError(msg % target_id)
            attacker.add_entry_point(target_asset, target_prop)
            continue
        left_asset = instance_model.get_asset_by_id(left_id)
        if left_asset is None:
            msg = 'Failed to find asset with id %d in model!'
            raise LookupError(msg % left_id)
        right_asset = instance_model.get_asset_by_id(right_id)
        if right_asset is None:
            msg = 'Failed to find asset with id %d in model!'
            raise LookupError(msg % right_id)
        assoc = lang_graph.get_association_by_fields_and_assets(left_field, right_field, left_asset.type, right_asset.type)
        if not assoc:
            return None
        assoc_name = lang_classes_factory.get_association_by_signature(assoc.name, assoc.left_field.asset.name, assoc.right_field.asset.name)
        if not assoc_name:
            msg = 'Failed to find "%s" association in language specification!'
            raise LookupError(msg % assoc.name)
        assoc = getattr(lang_classes_factory.ns, assoc_name)()
        setattr(assoc, left_field, [left_asset])
        setattr(assoc, right_field, [right_asset])
        if not (instance_model.association_exists_between_assets(assoc_name, left_asset, right_asset) or instance_model.association_exists_between_assets(assoc_name, right_asset, left_asset)):
            instance_model.add_association(assoc)
    return instance_model


# ---- B421  ingest_model  (C19)  [maltoolbox/ingestors/neo4j.py]
def ingest_model(model, uri, username, password, dbname, delete=False):
    g = Graph(uri=uri, user=username, password=password, name=dbname)
    if delete:
        g.delete_all()
    nodes = {}
    rels = []
    for asset in model.assets:
        nodes[str(asset.id)] = Node(str(asset.type), name=str(asset.name), asset_id=str(asset.id), type=str(asset.type))
    for assoc in model.associations:
        firstElementName, secondElementName = assoc._properties.keys()
        firstElements = getattr(assoc, firstElementName)
        secondElements = getattr(assoc, secondElementName)
        for first_asset in firstElements:
            for second_asset in secondElements:
                rels.append(Relationship(nodes[str(first_asset.id)], str(firstElementName), nodes[str(second_asset.id)]))
                rels.append(Relationship(nodes[str(second_asset.id)], str(secondElementName), nodes[str(first_asset.id)]))
    subgraph = Subgraph(list(nodes.values()), rels)
    tx = g.begin()
    tx.create(subgraph)
    g.commit(tx)


# ---- B422  ingest_attack_graph  (C19)  [maltoolbox/ingestors/neo4j.py]
def ingest_attack_graph(graph, uri, username, password, dbname, delete=False):
    g = Graph(uri=uri, user=username, password=password, name=dbname)
    if delete:
        g.delete_all()
    nodes = {}
    rels = []
    for node in graph.nodes:
        node_dict = node.to_dict()
        nodes[node.id] = Node(node_dict['asset'] if 'asset' in node_dict else node_dict['id'], name=node_dict['name'], full_name=node.full_name, type=node_dict['type'], ttc=str(node_dict['ttc']), is_necessary=str(node.is_necessary), is_viable=str(node.is_viable), compromised_by=str(node_dict['compromised_by']), defense_status=node_dict['defense_status'] if 'defense_status' in node_dict else 'N/A')
    for node in graph.nodes:
        for child in node.children:
            rels.append(Relationship(nodes[node.id], nodes[child.id]))
    subgraph = Subgraph(list(nodes.values()), rels)
    tx = g.begin()
    tx.create(subgraph)
    g.commit(tx)
