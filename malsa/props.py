"""Which property does a rule instance belong to (DESIGN section 5 / 8)."""
from __future__ import annotations

MODULE_DEFAULT = {
    'maltoolbox/attackgraph/attackgraph.py': ('C09',),
    'maltoolbox/attackgraph/node.py': ('C09',),
    'maltoolbox/attackgraph/attacker.py': ('C11', 'C09'),
    'maltoolbox/attackgraph/analyzers/apriori.py': ('C08',),
    'maltoolbox/attackgraph/query.py': ('C12',),
    'maltoolbox/model.py': ('C05',),
    'maltoolbox/language/languagegraph.py': ('C15',),
    'maltoolbox/language/classes_factory.py': ('C06',),
    'maltoolbox/language/compiler/__init__.py': ('C04', 'C17'),
    'maltoolbox/language/compiler/mal_visitor.py': ('C04',),
    'maltoolbox/file_utils.py': ('C07', 'C10'),
    'maltoolbox/wrappers.py': ('C16',),
    'maltoolbox/translators/updater.py': ('C18',),
    'maltoolbox/translators/securicad.py': ('C18',),
    'maltoolbox/ingestors/neo4j.py': ('C19',),
}

FUNC_PROPS = {
    '_process_step_expression': ('C01', 'C02'),      # C02: existence status = requirement expression evaluated
    'AttackGraph._generate_graph': ('C01', 'C02', 'C09'),
    'AttackGraph.add_node': ('C02', 'C09'),
    'AttackGraph.remove_node': ('C09', 'C13', 'C10', 'C12'),  # C10: a dangling entry point makes the saved file unloadable
    'AttackGraph.remove_attacker': ('C09', 'C11'),
    'AttackGraph.add_attacker': ('C09', 'C11'),
    'AttackGraph.attach_attackers': ('C11', 'C09'),
    'AttackGraph.regenerate_graph': ('C09',),
    'AttackGraph.__deepcopy__': ('C14', 'C09'),
    'AttackGraphNode.__deepcopy__': ('C14',),
    'Attacker.__deepcopy__': ('C14',),
    'AttackGraph._to_dict': ('C10',),
    'AttackGraph._from_dict': ('C10', 'C09'),
    'AttackGraphNode.to_dict': ('C10', 'C09'),
    'Attacker.to_dict': ('C10',),
    'Attacker.compromise': ('C11', 'C09'),
    'Attacker.undo_compromise': ('C11', 'C09'),
    'prune_unviable_and_unnecessary_nodes': ('C13', 'C09'),
    'Model._to_dict': ('C07',),
    'Model._from_dict': ('C07',),
    'Model.asset_to_dict': ('C07',),
    'Model.association_to_dict': ('C07',),
    'Model.attacker_to_dict': ('C07',),
    'Model.get_associated_assets_by_field_name': ('C01', 'C05', 'C02'),
    'LanguageGraph._get_attacks_for_asset_type': ('C03', 'C16', 'C01', 'C02'),   # the steps/expressions C01, C02 quantify over
    'LanguageGraph.get_association_by_fields_and_assets': ('C15', 'C18', 'C19'),      # used by the securiCAD loader
    'LanguageGraph._get_variable_for_asset_type_by_name': ('C01', 'C03', 'C02'),   # requirements of exist steps use variables
    'LanguageGraph._get_associations_for_asset_type': ('C15', 'C03'),
    'Model.get_attacker_by_id': ('C05', 'C18'),                  # the securiCAD loader attaches entry points through it
    'malVisitor.visitMal': ('C04', 'C17'),                       # includes are compiled (and rejected) from here
    'LanguageGraph.regenerate_graph': ('C15', 'C03'),            # C03 quantifies over language-graph regenerations
    'LanguageGraph.from_mal_spec': ('C15', 'C04', 'C17'),       # the entry point C04 / C17 observe the compiler through
}

ALL = tuple(f'C{i:02d}' for i in range(1, 20))


# helper functions inherit the properties of the mapped functions that (transitively) call them:
# filled from the resolved call graph by derive() when the analysis context is created
DERIVED: dict = {}


def derive(prog, analyzer) -> None:
    """a helper without an explicit entry also belongs to every property whose mapped functions reach it
    through resolved calls (the behaviour of those functions depends on it)."""
    DERIVED.clear()
    for short, props in FUNC_PROPS.items():
        if not prog.has_func(short):
            continue
        root = prog.func(short)
        for g in analyzer.reachable([root]).values():
            if g is root or g.short in FUNC_PROPS:
                continue
            cur = DERIVED.setdefault(g.short, [])
            for p in props:
                if p not in cur:
                    cur.append(p)


def props_for(func_short: str, relpath: str) -> tuple:
    if func_short in FUNC_PROPS:
        return FUNC_PROPS[func_short]
    top = func_short.split('.')[0]
    # nested function: use the outermost function's mapping
    if top in FUNC_PROPS:
        return FUNC_PROPS[top]
    base = MODULE_DEFAULT.get(relpath, ())
    extra = DERIVED.get(func_short) or DERIVED.get(top) or ()
    return tuple(dict.fromkeys(tuple(base) + tuple(extra)))
