"""Writer / reader shape extraction for the dict codecs (used by rule R8).

A *shape* maps key paths to facts.  Key path = tuple of steps: a constant key 'k', '*' (computed
key / any element of a mapping), '[]' (element of a list).

Writer shape of a function returning a dict: keys of the dict literal it builds, later
``D['k'] = v`` / ``D['k'][ke] = v`` / ``D['k'].append(v)`` stores, recursively expanded through
calls to other package functions whose result is stored.
Reader facts: every constant-key read ``X['k']`` / ``X.get('k', d)`` / ``'k' in X`` in the reader,
with the access path of X (PathResolver), whether it is guarded, the conversion applied and the
destination field.
"""
from __future__ import annotations

import ast
from typing import Optional

from .core import Func, own_nodes, stmt_text, const_str
from .cfg import cfg_of


def parent_map(fnode) -> dict:
    pm = {}
    for n in ast.walk(fnode):
        for ch in ast.iter_child_nodes(n):
            pm[id(ch)] = n
    return pm


class WFact:
    __slots__ = ('path', 'value', 'func', 'conditional', 'guard', 'keyexpr', 'node', 'conv', 'src',
                 'literal', 'guard_test')

    def __init__(self, path, value, func, conditional, guard, keyexpr=None, node=None, literal=False):
        self.literal = literal      # key of a dict literal (finitely many distinct keys)
        self.guard_test = None      # ast of the test controlling a conditional write
        self.path = path
        self.value = value
        self.func = func
        self.conditional = conditional
        self.guard = guard          # 'none' | 'not-none' | 'truthy' | 'other'
        self.keyexpr = keyexpr      # expression used as the key for '*' steps
        self.node = node
        self.conv, self.src = classify_value(value, func)

    def __repr__(self):
        return f'W{self.path} conv={self.conv} src={self.src} cond={self.conditional}/{self.guard}'


LOSSY_FUNCS = {'round', 'floor', 'ceil', 'trunc', 'abs'}
LOSSY_METHODS = {'lower', 'upper', 'strip', 'lstrip', 'rstrip', 'title', 'capitalize', 'casefold'}


def lossy_op(v):
    """a many-to-one operation applied to a field value on its way into the serialised form
    (walks down wrappers str(..) / float(..) / int(..)): -> description or None."""
    cur = v
    for _ in range(6):
        if isinstance(cur, ast.Call) and isinstance(cur.func, ast.Name):
            if cur.func.id in LOSSY_FUNCS and cur.args:
                return f'{cur.func.id}()'
            if cur.func.id in ('min', 'max') and len(cur.args) >= 2:
                return f'{cur.func.id}() clamp'
            if cur.func.id == 'sorted' and len(cur.args) >= 1 and isinstance(cur.args[0], ast.Attribute) \
                    and isinstance(cur.args[0].value, ast.Name) and cur.args[0].value.id == 'self':
                return 'sorted() (the order of the list is part of its value)'
            if cur.func.id in ('sorted', 'list', 'tuple') and len(cur.args) >= 1 and (
                    isinstance(cur.args[0], (ast.Set, ast.SetComp)) or
                    (isinstance(cur.args[0], ast.Call) and isinstance(cur.args[0].func, ast.Name)
                     and cur.args[0].func.id in ('set', 'frozenset'))) \
                    and any(isinstance(x, ast.Attribute) and isinstance(x.value, ast.Name) and x.value.id == 'self'
                            for x in ast.walk(cur.args[0])):
                return f'{cur.func.id}() of a set built from a list field (order and repeated entries are part of its value)'
            if cur.func.id in ('set', 'frozenset') and cur.args and any(
                    isinstance(x, ast.Attribute) and isinstance(x.value, ast.Name) and x.value.id == 'self'
                    for x in ast.walk(cur.args[0])):
                return 'set() of a list field (order and repeated entries are part of its value)'
            if cur.func.id in ('str', 'float', 'int', 'bool', 'repr') and len(cur.args) == 1:
                cur = cur.args[0]
                continue
            return None
        if isinstance(cur, ast.Call) and isinstance(cur.func, ast.Attribute):
            if isinstance(cur.func.value, ast.Name) and cur.func.value.id == 'math' and cur.func.attr in LOSSY_FUNCS:
                return f'math.{cur.func.attr}()'
            if cur.func.attr in LOSSY_METHODS:
                return f'.{cur.func.attr}()'
            if cur.func.attr == 'format' and isinstance(cur.func.value, ast.Constant) and \
                    isinstance(cur.func.value.value, str) and '.' in cur.func.value.value and ':' in cur.func.value.value:
                return 'format() with a precision'
            return None
        if isinstance(cur, ast.BinOp) and isinstance(cur.op, ast.Mod) and isinstance(cur.left, ast.Constant) \
                and isinstance(cur.left.value, str):
            import re as _re
            if _re.search(r'%\.\d+[fge]|%d', cur.left.value) and not isinstance(cur.right, ast.Tuple):
                return f"'{cur.left.value}' % formatting"
            return None
        if isinstance(cur, ast.JoinedStr) and len(cur.values) == 1 and isinstance(cur.values[0], ast.FormattedValue):
            fv = cur.values[0]
            if fv.format_spec is not None and '.' in ast.unparse(fv.format_spec):
                return 'f-string with a precision'
            cur = fv.value
            continue
        if isinstance(cur, ast.Subscript) and isinstance(cur.slice, ast.Slice) and \
                (cur.slice.lower is not None or cur.slice.upper is not None):
            return 'slice'
        return None
    return None


def classify_value(v, func: Func):
    """-> (conversion, source field path text or None)"""
    selfn = func.self_name

    def src_of(e):
        # self.F / self.F.G / <param>.F
        parts = []
        while isinstance(e, ast.Attribute):
            parts.append(e.attr)
            e = e.value
        if isinstance(e, ast.Name) and parts:
            base = 'self' if e.id == selfn else e.id
            return base + '.' + '.'.join(reversed(parts))
        return None

    if v is None:
        return ('none', None)
    lo = lossy_op(v)
    if lo is not None:
        srcs = [src_of(x) for x in ast.walk(v) if isinstance(x, ast.Attribute)]
        return ('lossy:' + lo, next((x for x in srcs if x), None))
    if isinstance(v, ast.Call) and isinstance(v.func, ast.Name) and len(v.args) == 1 \
            and v.func.id in ('str', 'int', 'float', 'bool', 'list', 'dict', 'sorted', 'tuple'):
        inner = v.args[0]
        s = src_of(inner)
        if s is not None:
            return (v.func.id, s)
        if isinstance(inner, ast.Name):
            return (v.func.id, inner.id)
        return (v.func.id, None)
    if isinstance(v, (ast.ListComp,)):
        g = v.generators[0]
        s = src_of(g.iter)
        ec, _ = classify_value(v.elt, func)
        return ('listcomp:' + ec, s)
    if isinstance(v, ast.Attribute):
        return ('id', src_of(v))
    if isinstance(v, ast.Name):
        return ('id', v.id)
    if isinstance(v, ast.Constant):
        return ('const', None)
    if isinstance(v, ast.Dict):
        return ('dict', None)
    if isinstance(v, ast.List):
        return ('list-literal', None)
    if isinstance(v, ast.Call):
        if isinstance(v.func, ast.Attribute) and v.func.attr == 'as_dict':
            return ('as_dict', src_of(v.func.value))
        return ('call', stmt_text(v.func))
    return ('other', None)


def _guard_kind(cfg, node, fnode):
    """classify the innermost `if` controlling a store: not-None test, truthiness, other."""
    # find an `if` node that dominates `node` with node in its true branch
    best = None
    for n in cfg.nodes:
        if n.kind == 'if' and cfg.dominates(n, node) and n is not node:
            ts = [s for s, l in n.succ if l == 'T']
            if any(cfg.dominates(s, node) for s in ts):
                best = n
    if best is None:
        return 'other', None
    t = best.ast.test
    return _classify_guard(t), t


def _classify_guard(t):
    if isinstance(t, ast.Compare) and len(t.ops) == 1 and isinstance(t.ops[0], (ast.IsNot, ast.NotEq)) \
            and isinstance(t.comparators[0], ast.Constant) and t.comparators[0].value is None:
        return 'not-none'
    if isinstance(t, (ast.Attribute, ast.Name)):
        return 'truthy'
    return 'other'


class WriterShapes:
    def __init__(self, ctx):
        self.ctx = ctx
        self.prog = ctx.prog
        self._cache = {}
        self.opaque = set()     # key-path prefixes (relative to the function they were met in) whose mapping is built
                                # by something this extraction does not read: absence of a key below is not known

    def of_func(self, f: Func, depth=0) -> list[WFact]:
        """facts for the value RETURNED by f (dict), or by index for tuple returns: see of_return."""
        return self.of_return(f, None, depth)

    def of_return(self, f: Func, idx: Optional[int], depth=0) -> list[WFact]:
        key = (f.qname, idx)
        if key in self._cache:
            return self._cache[key]
        self._cache[key] = []
        if depth > 6:
            return []
        out: list[WFact] = []
        for n in own_nodes(f.node):
            if isinstance(n, ast.Return) and n.value is not None:
                v = n.value
                if idx is not None:
                    if isinstance(v, ast.Tuple) and idx < len(v.elts):
                        v = v.elts[idx]
                    elif isinstance(v, ast.Call):
                        # `return other.to_dict()`: the tuple is built by the callee
                        res = self.prog.env(f).resolve_call(v)
                        if res[0] == 'func':
                            out += self.of_return(res[1], idx, depth + 1)
                        else:
                            self.opaque.add(())
                        continue
                    else:
                        self.opaque.add(())
                        continue
                out += self.of_expr(f, v, (), cfg_of(f).node_of(n), depth)
        self._cache[key] = out
        return out

    def of_expr(self, f: Func, v, prefix, at, depth) -> list[WFact]:
        """facts describing the structure of the value of expression v (prefix = key path so far)."""
        cfg = cfg_of(f)
        env = self.prog.env(f)
        out = []
        if isinstance(v, ast.Dict):
            for k, val in zip(v.keys, v.values):
                ks = const_str(k) if k is not None else None
                step = ks if ks is not None else '*'
                fact = WFact(prefix + (step,), val, f, False, 'none', keyexpr=k if ks is None else None,
                             node=at, literal=True)
                out.append(fact)
                out += self.of_expr(f, val, prefix + (step,), at, depth)
            return out
        if isinstance(v, ast.Name):
            # local variable: its literal definition(s) plus later stores into it
            name = v.id
            defs = cfg.reaching(at, name) if at is not None else []
            for d in defs:
                a = d.ast
                val = None
                if d.kind == 'stmt' and isinstance(a, ast.Assign):
                    for t in a.targets:
                        if isinstance(t, ast.Name) and t.id == name:
                            val = a.value
                        elif isinstance(t, (ast.Tuple, ast.List)):
                            for i, el in enumerate(t.elts):
                                if isinstance(el, ast.Name) and el.id == name:
                                    if isinstance(a.value, ast.Call):
                                        res = env.resolve_call(a.value)
                                        if res[0] == 'func':
                                            for w in self.of_return(res[1], i, depth + 1):
                                                out.append(self._rebase(w, prefix))
                elif d.kind == 'stmt' and isinstance(a, ast.AnnAssign) and a.value is not None:
                    val = a.value
                if val is not None:
                    out += self.of_expr(f, val, prefix, d, depth)
            out += self._stores_into(f, name, prefix, depth)
            return out
        if isinstance(v, ast.Call) and isinstance(v.func, ast.Name) and v.func.id == 'dict' and len(v.args) == 1 \
                and not v.keywords:
            # dict(<pairs>): a generator expression of (key, value) tuples, or a generator function yielding them
            a = v.args[0]
            if isinstance(a, ast.GeneratorExp) and isinstance(a.elt, ast.Tuple) and len(a.elt.elts) == 2:
                k_, val = a.elt.elts
                out.append(WFact(prefix + ('*',), val, f, False, 'none', keyexpr=k_, node=at))
                out += self._comp_value(f, a, val, prefix + ('*',), at, depth)
                return out
            if isinstance(a, ast.Call):
                res = env.resolve_call(a)
                if res[0] == 'func':
                    g = res[1]
                    ys = [y for y in own_nodes(g.node) if isinstance(y, ast.Yield) and isinstance(y.value, ast.Tuple)
                          and len(y.value.elts) == 2]
                    if ys and depth < 6:
                        gcfg = cfg_of(g)
                        for y in ys:
                            k_, val = y.value.elts
                            gat = gcfg.owner(y)
                            out.append(WFact(prefix + ('*',), val, g, False, 'none', keyexpr=k_, node=gat))
                            out += self.of_expr(g, val, prefix + ('*',), gat, depth + 1)
                        return out
            self.opaque.add(prefix)
            return out
        if isinstance(v, ast.Call):
            res = env.resolve_call(v)
            if res[0] == 'func':
                for w in self.of_return(res[1], None, depth + 1):
                    out.append(self._rebase(w, prefix))
            elif isinstance(v.func, ast.Name) and v.func.id in ('dict', 'OrderedDict', 'defaultdict') or \
                    (isinstance(v.func, ast.Attribute) and v.func.attr in ('copy', 'fromkeys')):
                self.opaque.add(prefix)     # a mapping whose keys this extraction does not see
            return out
        if isinstance(v, ast.List):
            for el in v.elts:
                out.append(WFact(prefix + ('[]',), el, f, False, 'none', node=at))
                out += self.of_expr(f, el, prefix + ('[]',), at, depth)
            return out
        if isinstance(v, ast.ListComp):
            out.append(WFact(prefix + ('[]',), v.elt, f, False, 'none', node=at))
            out += self._comp_value(f, v, v.elt, prefix + ('[]',), at, depth)
            return out
        if isinstance(v, ast.DictComp):
            out.append(WFact(prefix + ('*',), v.value, f, False, 'none', keyexpr=v.key, node=at))
            out += self._comp_value(f, v, v.value, prefix + ('*',), at, depth)
            return out
        return out

    def _comp_value(self, f, comp, val, prefix, at, depth):
        """structure of the element / value expression of a comprehension: a direct call, or a name
        bound by `for (a, b) in map(g, C)` / `for x in (g(y) for y in C)` to (part of) g's result."""
        env = self.prog.env(f)
        if isinstance(val, (ast.Call, ast.Dict, ast.List, ast.ListComp, ast.DictComp)):
            return self.of_expr(f, val, prefix, at, depth)
        if isinstance(val, ast.Name):
            for gen in comp.generators:
                it = gen.iter
                if isinstance(it, ast.Call) and isinstance(it.func, ast.Name) and it.func.id == 'map' \
                        and len(it.args) == 2:
                    fake = ast.Call(func=it.args[0], args=[ast.Name(id='_', ctx=ast.Load())], keywords=[])
                    ast.copy_location(fake, it)
                    ast.fix_missing_locations(fake)
                    res = env.resolve_call(fake)
                    if res[0] == 'func':
                        tg = gen.target
                        if isinstance(tg, ast.Name) and tg.id == val.id:
                            return [self._rebase(w, prefix) for w in self.of_return(res[1], None, depth + 1)]
                        if isinstance(tg, (ast.Tuple, ast.List)):
                            for i, el in enumerate(tg.elts):
                                if isinstance(el, ast.Name) and el.id == val.id:
                                    return [self._rebase(w, prefix) for w in self.of_return(res[1], i, depth + 1)]
        return []

    def _rebase(self, w: WFact, prefix) -> WFact:
        n = WFact.__new__(WFact)
        n.path = prefix + w.path
        n.value, n.func, n.conditional, n.guard = w.value, w.func, w.conditional, w.guard
        n.keyexpr, n.node, n.conv, n.src = w.keyexpr, w.node, w.conv, w.src
        n.literal = w.literal
        n.guard_test = w.guard_test
        return n

    def _stores_into(self, f: Func, name: str, prefix, depth) -> list[WFact]:
        """D['k'] = v, D['k'][ke] = v, D[ke] = v, D['k'].append(v) for local dict D."""
        cfg = cfg_of(f)
        out = []
        for n in own_nodes(f.node):
            if isinstance(n, ast.Assign) and len(n.targets) == 1 and isinstance(n.targets[0], ast.Subscript):
                chain = []
                t = n.targets[0]
                while isinstance(t, ast.Subscript):
                    chain.append(t.slice)
                    t = t.value
                if not (isinstance(t, ast.Name) and t.id == name):
                    continue
                chain.reverse()
                node = cfg.node_of(n)
                cond = not cfg.postdominates(node, cfg.entry) and node.loop is None
                if node.loop is not None:
                    # inside a loop: conditional iff not executed on every iteration
                    from .cfg import covered
                    cond = not covered(cfg, node.loop, [node]) if False else self._cond_in_loop(cfg, node)
                guard, gtest = _guard_kind(cfg, node, f.node) if cond else ('none', None)
                path = prefix
                keyexpr = None
                for k in chain:
                    ks = const_str(k)
                    if ks is not None:
                        path = path + (ks,)
                    else:
                        path = path + ('*',)
                        keyexpr = k
                wf = WFact(path, n.value, f, cond, guard, keyexpr=keyexpr, node=node)
                wf.guard_test = gtest
                out.append(wf)
                out += self.of_expr(f, n.value, path, node, depth)
            elif isinstance(n, ast.Call) and isinstance(n.func, ast.Attribute) and n.func.attr == 'append' \
                    and n.args:
                t = n.func.value
                chain = []
                while isinstance(t, ast.Subscript):
                    chain.append(t.slice)
                    t = t.value
                if not (isinstance(t, ast.Name) and t.id == name):
                    continue
                chain.reverse()
                node = cfg.owner(n)
                path = prefix
                for k in chain:
                    ks = const_str(k)
                    path = path + (ks if ks is not None else '*',)
                path = path + ('[]',)
                out.append(WFact(path, n.args[0], f, False, 'none', node=node))
                out += self.of_expr(f, n.args[0], path, node, depth)
            elif isinstance(n, ast.Call) and isinstance(n.func, ast.Attribute) and n.func.attr in ('extend', 'update') \
                    and len(n.args) == 1 and not n.keywords:
                # D['k'].extend(map(g, xs)) / .extend(g(x) for x in xs) ;  D['k'].update(map(g2, xs)) with g2 returning
                # (key, value) ;  .update((ke, v) for (a, v) in map(g2, xs)) ;  anything else: keys not seen (opaque)
                t = n.func.value
                chain = []
                while isinstance(t, ast.Subscript):
                    chain.append(t.slice)
                    t = t.value
                if not (isinstance(t, ast.Name) and t.id == name):
                    continue
                chain.reverse()
                node = cfg.owner(n)
                path = prefix
                for k in chain:
                    ks = const_str(k)
                    path = path + (ks if ks is not None else '*',)
                env = self.prog.env(f)
                arg = n.args[0]
                done = False

                def callee_of_map(it):
                    if isinstance(it, ast.Call) and isinstance(it.func, ast.Name) and it.func.id == 'map' and len(it.args) == 2:
                        fake = ast.Call(func=it.args[0], args=[ast.Name(id='_', ctx=ast.Load())], keywords=[])
                        ast.copy_location(fake, it)
                        ast.fix_missing_locations(fake)
                        res = env.resolve_call(fake)
                        if res[0] == 'func':
                            return res[1]
                    return None
                if n.func.attr == 'extend':
                    g = callee_of_map(arg)
                    if g is not None:
                        out.append(WFact(path + ('[]',), arg, f, False, 'none', node=node))
                        out += [self._rebase(w, path + ('[]',)) for w in self.of_return(g, None, depth + 1)]
                        done = True
                    elif isinstance(arg, (ast.GeneratorExp, ast.ListComp)):
                        out.append(WFact(path + ('[]',), arg.elt, f, False, 'none', node=node))
                        out += self._comp_value(f, arg, arg.elt, path + ('[]',), node, depth)
                        done = True
                else:
                    g = callee_of_map(arg)
                    if g is not None:
                        out.append(WFact(path + ('*',), arg, f, False, 'none', keyexpr=arg, node=node))
                        out += [self._rebase(w, path + ('*',)) for w in self.of_return(g, 1, depth + 1)]
                        done = True
                    elif isinstance(arg, (ast.GeneratorExp, ast.ListComp)) and isinstance(arg.elt, ast.Tuple) \
                            and len(arg.elt.elts) == 2:
                        k_, v_ = arg.elt.elts
                        out.append(WFact(path + ('*',), v_, f, False, 'none', keyexpr=k_, node=node))
                        out += self._comp_value(f, arg, v_, path + ('*',), node, depth)
                        done = True
                    elif isinstance(arg, ast.Dict):
                        out += self.of_expr(f, arg, path, node, depth)
                        done = True
                if not done:
                    self.opaque.add(path)
        return out

    @staticmethod
    def _cond_in_loop(cfg, node) -> bool:
        """store inside a loop: conditional iff some iteration path skips it."""
        h = node.loop
        # path header -(T)-> ... -> header avoiding node
        seen = set()
        st = [t for t, l in h.succ if l == 'T']
        while st:
            x = st.pop()
            if x is node or x.idx in seen:
                continue
            if x is h:
                return True
            seen.add(x.idx)
            for t, _ in x.succ:
                if t is cfg.raise_exit or t is cfg.exit:
                    continue
                st.append(t)
        return False


class RFact:
    __slots__ = ('path', 'kind', 'expr', 'guarded', 'conv', 'dest', 'node', 'default')

    def __repr__(self):
        return f'R{self.path} {self.kind} conv={self.conv} dest={self.dest} guarded={self.guarded}'


def _steps_of(p) -> tuple:
    out = []
    for s in p.steps:
        if s == '[*]':
            out.append('*')
        elif s.startswith("['"):
            out.append(s[2:-2])
        elif s.startswith('['):
            out.append('#' + s[1:-1])
        else:
            out.append('.' + s)
    return tuple(out)


def reader_facts(ctx, f: Func, root_param: str, _depth=0, _seen=None) -> list[RFact]:
    """all constant-key reads in f whose container is rooted at parameter root_param - including reads made by
    package functions that are handed (a part of) the input: their facts are re-rooted at the path passed."""
    _seen = _seen if _seen is not None else set()
    if (f.qname, root_param) in _seen or _depth > 3:
        return []
    _seen.add((f.qname, root_param))
    R = ctx.R(f)
    cfg = cfg_of(f)
    pm = parent_map(f.node)
    facts = []

    def container_paths(expr, node):
        return [p for p in R.paths(expr, node) if p.root == ('param', root_param)]

    for n in own_nodes(f.node):
        key = None
        cont = None
        kind = None
        default = None
        if isinstance(n, ast.Subscript) and isinstance(n.ctx, ast.Load):
            key = const_str(n.slice)
            cont, kind = n.value, 'sub'
        elif isinstance(n, ast.Call) and isinstance(n.func, ast.Attribute) and n.func.attr == 'get' and n.args:
            key = const_str(n.args[0])
            cont, kind = n.func.value, 'get'
            default = n.args[1] if len(n.args) > 1 else ast.Constant(value=None)
        elif isinstance(n, ast.Compare) and len(n.ops) == 1 and isinstance(n.ops[0], (ast.In, ast.NotIn)):
            key = const_str(n.left)
            cont, kind = n.comparators[0], 'in'
        if key is None or cont is None:
            continue
        node = cfg.owner(n)
        for p in container_paths(cont, node):
            rf = RFact()
            rf.path = _steps_of(p) + (key,)
            rf.kind = kind
            rf.expr = n
            rf.node = node
            rf.default = default
            rf.guarded = kind in ('get', 'in') or _is_guarded(n, key, cont, pm, cfg, node)
            rf.conv, rf.dest = _conv_dest(n, pm, f)
            facts.append(rf)
    # helpers: g(..., <input path>, ...)
    env = ctx.prog.env(f)
    for n in own_nodes(f.node):
        if not isinstance(n, ast.Call):
            continue
        res = env.resolve_call(n)
        if res[0] != 'func':
            continue
        g = res[1]
        if g.module.generated or g is f:
            continue
        params = list(g.params)
        if g.is_method and not getattr(g, 'is_staticmethod', False) and isinstance(n.func, ast.Attribute):
            params = params[1:]
        node = cfg.owner(n)
        for i, a in enumerate(n.args):
            if i >= len(params):
                break
            for p in container_paths(a, node):
                for sub in reader_facts(ctx, g, params[i], _depth + 1, _seen):
                    rf = RFact()
                    rf.path = _steps_of(p) + sub.path
                    rf.kind, rf.expr, rf.node, rf.default = sub.kind, sub.expr, sub.node, sub.default
                    rf.guarded, rf.conv, rf.dest = sub.guarded, sub.conv, sub.dest
                    facts.append(rf)
        for kw in n.keywords:
            if kw.arg in g.params:
                for p in container_paths(kw.value, node):
                    for sub in reader_facts(ctx, g, kw.arg, _depth + 1, _seen):
                        rf = RFact()
                        rf.path = _steps_of(p) + sub.path
                        rf.kind, rf.expr, rf.node, rf.default = sub.kind, sub.expr, sub.node, sub.default
                        rf.guarded, rf.conv, rf.dest = sub.guarded, sub.conv, sub.dest
                        facts.append(rf)
    return facts


def _same_expr(a, b) -> bool:
    return ast.dump(a) == ast.dump(b)


def _is_guarded(n, key, cont, pm, cfg, node) -> bool:
    """is the read X['k'] evaluated only when 'k' in X holds?"""
    cur = n
    while id(cur) in pm:
        par = pm[id(cur)]
        if isinstance(par, ast.IfExp) and cur is par.body and _tests_key(par.test, key, cont, True):
            return True
        if isinstance(par, ast.IfExp) and cur is par.orelse and _tests_key(par.test, key, cont, False):
            return True
        if isinstance(par, ast.BoolOp) and isinstance(par.op, ast.And):
            i = par.values.index(cur) if cur in par.values else -1
            if any(_tests_key(v, key, cont, True) for v in par.values[:max(i, 0)]):
                return True
        if isinstance(par, ast.If):
            if cur in par.body or any(cur is x for x in par.body):
                pass
        cur = par
    # dominating if-statement
    for g in cfg.nodes:
        if g.kind == 'if' and g is not node and cfg.dominates(g, node):
            if _tests_key(g.ast.test, key, cont, True):
                ts = [s for s, l in g.succ if l == 'T']
                if any(cfg.dominates(s, node) for s in ts):
                    return True
            if _tests_key(g.ast.test, key, cont, False):
                fs = [s for s, l in g.succ if l == 'F']
                if any(cfg.dominates(s, node) for s in fs):
                    return True
    return False


def _tests_key(test, key, cont, positive: bool) -> bool:
    for sub in ast.walk(test):
        if isinstance(sub, ast.Compare) and len(sub.ops) == 1 and const_str(sub.left) == key \
                and _same_expr(sub.comparators[0], cont):
            if isinstance(sub.ops[0], ast.In) and positive:
                # must not sit under a `not`
                return True
            if isinstance(sub.ops[0], ast.NotIn) and not positive:
                return True
    return False


def _conv_dest(n, pm, f: Func):
    """conversion wrapped around a read and the field / parameter it flows into."""
    conv = 'id'
    cur = n
    dest = None
    while id(cur) in pm:
        par = pm[id(cur)]
        if isinstance(par, ast.Call) and isinstance(par.func, ast.Name) and cur in par.args \
                and par.func.id in ('float', 'int', 'str', 'bool', 'list', 'dict', 'tuple', 'set') \
                and conv == 'id':
            conv = par.func.id
        elif isinstance(par, ast.Call) and isinstance(par.func, ast.Attribute) \
                and par.func.attr in ('literal_eval', 'loads') and cur in par.args and conv == 'id':
            conv = 'parse'
        elif isinstance(par, ast.Compare) and cur is par.left and len(par.ops) == 1 \
                and isinstance(par.ops[0], ast.Eq) and isinstance(par.comparators[0], ast.Constant):
            conv = 'eq:' + repr(par.comparators[0].value)
        elif isinstance(par, ast.IfExp):
            if cur is par.test:
                return conv, None
        elif isinstance(par, ast.keyword):
            dest = 'kw:' + (par.arg or '')
            return conv, dest
        elif isinstance(par, ast.Call):
            # positional argument of a call
            if cur in par.args:
                dest = f'arg:{stmt_text(par.func, 40)}#{par.args.index(cur)}'
                return conv, dest
            return conv, None
        elif isinstance(par, (ast.Assign, ast.AnnAssign)):
            tgts = par.targets if isinstance(par, ast.Assign) else [par.target]
            t = tgts[0]
            if isinstance(t, ast.Attribute):
                dest = 'attr:' + t.attr
            elif isinstance(t, ast.Name):
                dest = 'var:' + t.id
            return conv, dest
        elif isinstance(par, (ast.For, ast.comprehension)):
            return conv, 'iter'
        elif isinstance(par, ast.stmt):
            return conv, None
        cur = par
    return conv, dest
