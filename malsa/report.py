"""E8: rule instances, findings, known findings, evidence files."""
from __future__ import annotations

import json
import os
import time
from typing import Optional

VERIF = os.path.dirname(os.path.dirname(os.path.abspath(__file__)))
EVIDENCE_DIR = os.path.join(VERIF, 'evidence')
REPLAY_DIR = os.path.join(EVIDENCE_DIR, 'replay')
KNOWN_FILE = os.path.join(VERIF, 'known_findings.json')


class Inst:
    """One instance of a rule: an obligation the rule examined, with its verdict."""
    __slots__ = ('rule', 'func', 'construct', 'verdict', 'msg', 'file', 'line', 'nontrivial',
                 'props', 'extra')

    def __init__(self, rule, func, construct, verdict, msg='', file='', line=0, nontrivial=True,
                 props=(), extra=None):
        assert verdict in ('ok', 'violation', 'unproven', 'info')
        self.rule = rule
        self.func = func
        self.construct = construct
        self.verdict = verdict
        self.msg = msg
        self.file = file
        self.line = line
        self.nontrivial = nontrivial
        self.props = tuple(props)
        self.extra = extra or {}

    @property
    def key(self):
        return f'{self.rule}|{self.func}|{self.construct}'

    def to_dict(self):
        d = {'rule': self.rule, 'function': self.func, 'construct': self.construct,
             'verdict': self.verdict, 'where': f'{self.file}:{self.line}'}
        if self.msg:
            d['detail'] = self.msg
        if self.extra:
            d['extra'] = self.extra
        return d


def load_known() -> dict:
    if not os.path.exists(KNOWN_FILE):
        return {'findings': [], 'fixed': []}
    with open(KNOWN_FILE, encoding='utf-8') as f:
        return json.load(f)


def known_keys_for(pid: str) -> dict:
    kf = load_known()
    out = {}
    for e in kf.get('findings', []):
        if pid in e.get('properties', [e.get('property')]):
            out[e['key']] = e
    return out


def write_evidence(pid: str, tier: str, seed: int, wall: float, coverage: dict,
                   assumptions: list, violations: int):
    os.makedirs(EVIDENCE_DIR, exist_ok=True)
    ev = {
        'property_id': pid,
        'tier': tier,
        'seed': seed,
        'level': 'other',
        'coverage': coverage,
        'assumptions': assumptions,
        'wall_s': round(wall, 3),
        'violations': violations,
    }
    path = os.path.join(EVIDENCE_DIR, f'{pid}.json')
    tmp = path + '.tmp'
    with open(tmp, 'w', encoding='utf-8') as f:
        json.dump(ev, f, indent=1, sort_keys=False)
        f.write('\n')
    os.replace(tmp, path)
    return path


def write_replay(pid: str, n: int, inst: Inst, repo: str) -> str:
    os.makedirs(REPLAY_DIR, exist_ok=True)
    path = os.path.join(REPLAY_DIR, f'{pid}-{n}.json')
    with open(path, 'w', encoding='utf-8') as f:
        json.dump({'property': pid, 'repo': repo, 'instance': inst.to_dict(), 'key': inst.key,
                   'how': f'./check {pid} --replay {path}'}, f, indent=1)
        f.write('\n')
    return path
