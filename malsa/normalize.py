"""E0: source-level normalisation applied to every module before any analysis.

Purely syntactic, semantics-preserving rewrites that remove *spelling* differences the rules would
otherwise have to know one by one (all of them seen in behaviour-preserving refactorings):

 N1  a `for` over a literal tuple / list of at most 6 simple expressions (constants, names,
     attribute chains, tuples of those) - or over a local bound exactly once to such a literal and
     never mutated - is unrolled: one copy of the body per element with the loop variable(s)
     replaced by the element.  Guard-clause `if c: continue` at the top level of the body is first
     rewritten to `if not c: <rest>`; bodies with any other `continue` / `break` are left alone.
 N2  `getattr(x, 'name')` -> `x.name` ; statement `setattr(x, 'name', v)` -> `x.name = v`
     (after N1 the name is usually a constant).
 N4  copy propagation of locals bound once to a pure navigation expression (`x = node.parents`,
     `c = memo[id(node)]`, `k = id(self)`), when nothing between binding and uses can change what the
     expression denotes.
 N5  `if E > T: T = E`  ->  `T = max(E, T)`   (monotone counter update).
 N6  `if c: x = a else: x = b`  ->  `x = a if c else b`.
 N7  `x = None; for e in C: if cond: x = e; break`  ->  `x = next((e for e in C if cond), None)`.

Line numbers of the original nodes are kept, so reports still point into the real file.  The
rewrites never change what the code does; they only give every rule one spelling to look at.
"""
from __future__ import annotations

import ast
import copy

MAX_ELTS = 8


def _simple(e) -> bool:
    if isinstance(e, ast.Constant):
        return True
    if isinstance(e, ast.Name):
        return True
    if isinstance(e, ast.Attribute):
        return _simple(e.value)
    if isinstance(e, ast.Tuple):
        return all(_simple(x) for x in e.elts)
    if isinstance(e, ast.Call) and isinstance(e.func, ast.Name) and e.func.id == 'getattr' and len(e.args) == 2 \
            and not e.keywords:
        return all(_simple(x) for x in e.args)      # pure read of a field chosen by name
    if isinstance(e, ast.Lambda):
        # a small function value in a rule table: parameters are plain names, the body reads only them / constants
        a = e.args
        if a.vararg or a.kwarg or a.kwonlyargs or a.defaults or a.posonlyargs:
            return False
        params = {x.arg for x in a.args}
        free = {n.id for n in ast.walk(e.body) if isinstance(n, ast.Name)} - params
        return not any(isinstance(n, (ast.NamedExpr, ast.Lambda, ast.Yield, ast.Await)) for n in ast.walk(e.body)) \
            and all(f in ('None', 'True', 'False', 'bool', 'str', 'int', 'float', 'list', 'dict', 'set', 'tuple', 'len')
                    for f in free)
    return False


class _Subst(ast.NodeTransformer):
    def __init__(self, mapping):
        self.mapping = mapping

    def visit_Name(self, node):
        if isinstance(node.ctx, ast.Load) and node.id in self.mapping:
            new = copy.deepcopy(self.mapping[node.id])
            return ast.copy_location(new, node)
        return node


def _own_loop_jumps(body):
    """Continue / Break statements that belong to THIS loop (not to nested loops); nested defs skipped."""
    out = []

    def walk(stmts, top):
        for s in stmts:
            if isinstance(s, (ast.Continue, ast.Break)):
                out.append((s, top))
            elif isinstance(s, (ast.For, ast.While, ast.AsyncFor)):
                walk(s.orelse, False)
            elif isinstance(s, (ast.FunctionDef, ast.AsyncFunctionDef, ast.ClassDef)):
                continue
            else:
                for fld in ('body', 'orelse', 'finalbody'):
                    sub = getattr(s, fld, None)
                    if isinstance(sub, list):
                        walk(sub, False)
                for h in getattr(s, 'handlers', []) or []:
                    walk(h.body, False)
                for c in getattr(s, 'cases', []) or []:
                    walk(c.body, False)
    walk(body, True)
    return out


def _degard(body):
    """`if c: [log...]; continue` followed by REST  ->  `if c: [log...] else: REST`  (top level only)."""
    out = []
    for i, s in enumerate(body):
        if isinstance(s, ast.If) and not s.orelse and s.body and isinstance(s.body[-1], ast.Continue) \
                and not any(isinstance(x, (ast.Continue, ast.Break)) for b in s.body[:-1] for x in ast.walk(b)):
            rest = _degard(body[i + 1:])
            new = ast.If(test=s.test, body=s.body[:-1] or [ast.copy_location(ast.Pass(), s)],
                         orelse=rest)
            ast.copy_location(new, s)
            out.append(new)
            return out
        out.append(s)
    return out


def _assigned_names(stmts):
    out = set()
    for s in stmts:
        for n in ast.walk(s):
            if isinstance(n, ast.Name) and isinstance(n.ctx, (ast.Store, ast.Del)):
                out.add(n.id)
    return out


def _bind(target, elt, mapping) -> bool:
    if isinstance(target, ast.Name):
        mapping[target.id] = elt
        return True
    if isinstance(target, (ast.Tuple, ast.List)) and isinstance(elt, ast.Tuple) and len(target.elts) == len(elt.elts):
        return all(_bind(t, e, mapping) for t, e in zip(target.elts, elt.elts))
    return False


class Normalizer(ast.NodeTransformer):
    def visit_Module(self, node):
        # module-level tables: NAME = (literal tuple / list of simple elements), bound once, never mutated
        stores, mutated = {}, set()
        for x in ast.walk(node):
            if isinstance(x, ast.Name) and isinstance(x.ctx, (ast.Store, ast.Del)):
                stores[x.id] = stores.get(x.id, 0) + 1
            if isinstance(x, ast.Call) and isinstance(x.func, ast.Attribute) and isinstance(x.func.value, ast.Name) \
                    and x.func.attr in ('append', 'extend', 'insert', 'pop', 'remove', 'clear', 'sort', 'reverse'):
                mutated.add(x.func.value.id)
            if isinstance(x, (ast.Global,)):
                mutated.update(x.names)
        for st in node.body:
            tg = None
            if isinstance(st, ast.Assign) and len(st.targets) == 1 and isinstance(st.targets[0], ast.Name):
                tg, val = st.targets[0].id, st.value
            elif isinstance(st, ast.AnnAssign) and isinstance(st.target, ast.Name) and st.value is not None:
                tg, val = st.target.id, st.value
            if tg and isinstance(val, (ast.Tuple, ast.List)) and 0 < len(val.elts) <= MAX_ELTS \
                    and all(_simple(e) for e in val.elts) and stores.get(tg) == 1 and tg not in mutated:
                self.const_locals[0][tg] = val
        self.generic_visit(node)
        return node

    def __init__(self):
        self.const_locals = [{}]     # stack: function -> {name: literal tuple}
        self.func_stack = []
        self.for_consts = {}         # id(For node) -> literal its iterable is bound to (block-local table)
        self.count = 0

    # ------------------------------------------------------------------ functions: literal-bound locals
    def _function(self, node):
        consts = {}
        stores = {}
        mutated = set()
        for n in ast.walk(node):
            if isinstance(n, ast.Name) and isinstance(n.ctx, (ast.Store, ast.Del)):
                stores[n.id] = stores.get(n.id, 0) + 1
            if isinstance(n, ast.Call) and isinstance(n.func, ast.Attribute) and isinstance(n.func.value, ast.Name):
                if n.func.attr in ('append', 'extend', 'insert', 'pop', 'remove', 'clear', 'sort', 'reverse'):
                    mutated.add(n.func.value.id)
            if isinstance(n, ast.AugAssign) and isinstance(n.target, ast.Name):
                mutated.add(n.target.id)
        for st in node.body:
            if isinstance(st, ast.Assign) and len(st.targets) == 1 and isinstance(st.targets[0], ast.Name) \
                    and isinstance(st.value, (ast.Tuple, ast.List)) and 0 < len(st.value.elts) <= MAX_ELTS \
                    and all(_simple(e) for e in st.value.elts):
                nm = st.targets[0].id
                if stores.get(nm) == 1 and nm not in mutated:
                    # elements must not be reassigned later either (they are evaluated at the binding)
                    used = {x.id for e in st.value.elts for x in ast.walk(e) if isinstance(x, ast.Name)}
                    if all(stores.get(u, 0) <= 1 for u in used):
                        consts[nm] = st.value
        # tables of named records: `a = (x, p); b = (y, q); t = ((a, b), (b, a))` -- element names that are themselves
        # single-store literal tuples of the function body are spelled out (bounded depth), so that a destructuring
        # loop target can be bound per element
        class _Expand(ast.NodeTransformer):
            def visit_Name(self_, n):
                if isinstance(n.ctx, ast.Load) and n.id in consts and isinstance(consts[n.id], ast.Tuple):
                    return copy.deepcopy(consts[n.id])
                return n
        for _ in range(3):
            changed = False
            for nm, val in list(consts.items()):
                if any(isinstance(x, ast.Name) and x.id in consts and isinstance(consts[x.id], ast.Tuple) and x.id != nm
                       for e in val.elts for x in ast.walk(e)):
                    new = copy.deepcopy(val)
                    new.elts = [_Expand().visit(e) for e in new.elts]
                    size = sum(1 for _n in ast.walk(new))
                    if size <= 200:
                        consts[nm] = ast.fix_missing_locations(ast.copy_location(new, val))
                        changed = True
            if not changed:
                break
        # block-local tables: `t = ((a, b), (b, a))` directly followed (same statement list, no store to the
        # element names in between) by `for x, y in t`
        def blocks(n):
            for fld in ('body', 'orelse', 'finalbody'):
                sub = getattr(n, fld, None)
                if isinstance(sub, list) and sub and isinstance(sub[0], ast.stmt):
                    yield sub
            for h in getattr(n, 'handlers', []) or []:
                yield h.body
            for c in getattr(n, 'cases', []) or []:
                yield c.body
        for n in ast.walk(node):
            if n is not node and isinstance(n, (ast.FunctionDef, ast.AsyncFunctionDef, ast.ClassDef, ast.Lambda)):
                continue
            for L in blocks(n):
                # `a, b = T` (T a name) and later in the block `for v in T`: T has exactly these elements
                for i, st in enumerate(L):
                    if isinstance(st, ast.Assign) and len(st.targets) == 1 and isinstance(st.targets[0], (ast.Tuple, ast.List)) \
                            and isinstance(st.value, ast.Name) and 0 < len(st.targets[0].elts) <= MAX_ELTS \
                            and all(isinstance(e, ast.Name) for e in st.targets[0].elts):
                        tn = st.value.id
                        parts = [e.id for e in st.targets[0].elts]
                        if stores.get(tn) != 1 or any(stores.get(p_) != 1 for p_ in parts):
                            continue
                        for j in range(len(L)):
                            if j != i and isinstance(L[j], ast.For) and isinstance(L[j].iter, ast.Name) and L[j].iter.id == tn:
                                tup = ast.Tuple(elts=[ast.Name(id=p_, ctx=ast.Load()) for p_ in parts], ctx=ast.Load())
                                ast.copy_location(tup, L[j].iter)
                                ast.fix_missing_locations(tup)
                                if j > i:
                                    self.for_consts[id(L[j])] = tup
                for i, st in enumerate(L):
                    if not (isinstance(st, ast.Assign) and len(st.targets) == 1 and isinstance(st.targets[0], ast.Name)
                            and isinstance(st.value, (ast.Tuple, ast.List)) and 0 < len(st.value.elts) <= MAX_ELTS
                            and all(_simple(e) for e in st.value.elts)):
                        continue
                    nm = st.targets[0].id
                    if stores.get(nm) != 1 or nm in mutated:
                        continue
                    used = {x.id for e in st.value.elts for x in ast.walk(e) if isinstance(x, ast.Name)}
                    for j in range(i + 1, len(L)):
                        if isinstance(L[j], ast.For) and isinstance(L[j].iter, ast.Name) and L[j].iter.id == nm:
                            self.for_consts[id(L[j])] = st.value
                        if _assigned_names([L[j]]) & used:
                            break
        self.const_locals.append(consts)
        self.func_stack.append(node)
        self.generic_visit(node)
        self.func_stack.pop()
        self.const_locals.pop()
        return node

    visit_FunctionDef = _function
    visit_AsyncFunctionDef = _function

    # ------------------------------------------------------------------ N1
    def visit_For(self, node):
        it = node.iter
        if id(node) in self.for_consts:
            it = self.for_consts[id(node)]
        elif isinstance(it, ast.Name) and it.id in self.const_locals[-1]:
            it = self.const_locals[-1][it.id]
        elif isinstance(it, ast.Name) and it.id in self.const_locals[0] and len(self.const_locals) > 1 \
                and it.id not in {x.id for x in ast.walk(self.func_stack[-1]) if isinstance(x, ast.Name)
                                  and isinstance(x.ctx, ast.Store)}:
            it = self.const_locals[0][it.id]
        if isinstance(it, (ast.Tuple, ast.List)) and 0 < len(it.elts) <= MAX_ELTS and not node.orelse \
                and all(_simple(e) for e in it.elts):
            body = _degard(node.body)
            jumps = _own_loop_jumps(body)
            tnames = {n.id for n in ast.walk(node.target) if isinstance(n, ast.Name)}
            elt_names = {x.id for e in it.elts for x in ast.walk(e) if isinstance(x, ast.Name)}
            elt_attrs = {ast.unparse(x) for e in it.elts for x in ast.walk(e) if isinstance(x, ast.Attribute)}
            stored_attrs = {ast.unparse(x) for s in body for x in ast.walk(s)
                            if isinstance(x, ast.Attribute) and isinstance(x.ctx, (ast.Store, ast.Del))}
            assigned = _assigned_names(body)
            dyn_reads = [x for e in it.elts for x in ast.walk(e) if isinstance(x, ast.Call)]
            dyn_bases = {b.id for c in dyn_reads for b in ast.walk(c.args[0]) if isinstance(b, ast.Name)}
            dyn_disturbed = any(
                (isinstance(x, ast.Attribute) and isinstance(x.ctx, (ast.Store, ast.Del)) and
                 any(isinstance(b, ast.Name) and b.id in dyn_bases for b in ast.walk(x.value))) or
                (isinstance(x, ast.Call) and isinstance(x.func, ast.Name) and x.func.id in ('setattr', 'delattr'))
                for s in body for x in ast.walk(s)) if dyn_reads else False
            if not jumps and not (tnames & assigned) and not (elt_names & assigned) \
                    and not (elt_attrs & stored_attrs) and not dyn_disturbed:
                out = []
                ok = True
                for k, e in enumerate(it.elts):
                    mapping = {}
                    if not _bind(node.target, e, mapping):
                        ok = False
                        break
                    copies = [_Subst(mapping).visit(copy.deepcopy(s)) for s in body]
                    copies = _rename_iteration_locals(copies, f'u{self.count}_{k}', self._reads_outside(node))
                    out.extend(copies)
                if ok:
                    self.count += 1
                    res = []
                    for s in out:
                        r = self.visit(s)
                        if isinstance(r, list):
                            res.extend(r)
                        elif r is not None:
                            res.append(r)
                    return res
        self.generic_visit(node)
        return node

    def _reads_outside(self, loop):
        """names read anywhere in the enclosing function outside this loop (cannot be renamed per copy)."""
        fn = self.func_stack[-1] if self.func_stack else None
        if fn is None:
            return set(n.id for n in ast.walk(loop) if isinstance(n, ast.Name))
        inside = {id(n) for n in ast.walk(loop)}
        return {n.id for n in ast.walk(fn) if isinstance(n, ast.Name) and id(n) not in inside}

    # ------------------------------------------------------------------ N10: a, b = x, y  ->  a = x ; b = y
    def visit_Assign(self, node):
        self.generic_visit(node)
        # N24: (t1, t2, t3) = (E(x) for x in (a, b, c))   ->   the tuple (E(a), E(b), E(c))   (then N10 below)
        if len(node.targets) == 1 and isinstance(node.targets[0], (ast.Tuple, ast.List)) \
                and isinstance(node.value, (ast.GeneratorExp, ast.ListComp)) and len(node.value.generators) == 1:
            g = node.value.generators[0]
            if isinstance(g.target, ast.Name) and not g.ifs and not g.is_async and isinstance(g.iter, (ast.Tuple, ast.List)) \
                    and len(g.iter.elts) == len(node.targets[0].elts) and all(_simple(e) for e in g.iter.elts) \
                    and not any(isinstance(x, (ast.NamedExpr, ast.Lambda, ast.Yield)) for x in ast.walk(node.value.elt)):
                vals = [_Subst({g.target.id: e}).visit(copy.deepcopy(node.value.elt)) for e in g.iter.elts]
                node = ast.copy_location(ast.Assign(targets=node.targets, value=ast.Tuple(elts=vals, ctx=ast.Load()),
                                                    type_comment=None), node)
                ast.fix_missing_locations(node)
                self.count += 1
        # N24b: (t1, t2) = (E(x) for x in ITER)   (ITER not a literal)   ->   __g1, __g2 = ITER ; t1, t2 = E(__g1), E(__g2)
        if len(node.targets) == 1 and isinstance(node.targets[0], (ast.Tuple, ast.List)) \
                and isinstance(node.value, (ast.GeneratorExp, ast.ListComp)) and len(node.value.generators) == 1 \
                and 1 < len(node.targets[0].elts) <= MAX_ELTS \
                and all(isinstance(t, (ast.Name, ast.Tuple, ast.List)) for t in node.targets[0].elts):
            g = node.value.generators[0]
            if isinstance(g.target, ast.Name) and not g.ifs and not g.is_async \
                    and not isinstance(g.iter, (ast.Tuple, ast.List)) \
                    and not any(isinstance(x, (ast.NamedExpr, ast.Lambda, ast.Yield, ast.Await)) for x in ast.walk(node.value.elt)):
                self.count += 1
                k = len(node.targets[0].elts)
                tmp = [f'__g{self.count}_{i}' for i in range(k)]
                first = ast.Assign(targets=[ast.Tuple(elts=[ast.Name(id=t, ctx=ast.Store()) for t in tmp], ctx=ast.Store())],
                                   value=g.iter, type_comment=None)
                vals = [_Subst({g.target.id: ast.Name(id=t, ctx=ast.Load())}).visit(copy.deepcopy(node.value.elt)) for t in tmp]
                second = ast.Assign(targets=node.targets, value=ast.Tuple(elts=vals, ctx=ast.Load()), type_comment=None)
                for st in (first, second):
                    ast.copy_location(st, node)
                    ast.fix_missing_locations(st)
                r2 = self.visit_Assign(second)
                return [first] + (r2 if isinstance(r2, list) else [r2])
        # nested destructuring of a literal of the same shape: ((a, b), (c, d)) = ((p, q), (r, s))  ->  flat
        if len(node.targets) == 1 and isinstance(node.targets[0], (ast.Tuple, ast.List)) \
                and isinstance(node.value, (ast.Tuple, ast.List)) and len(node.targets[0].elts) == len(node.value.elts) \
                and any(isinstance(t, (ast.Tuple, ast.List)) for t in node.targets[0].elts):
            ft, fv, okf = [], [], True
            for t, v in zip(node.targets[0].elts, node.value.elts):
                if isinstance(t, (ast.Tuple, ast.List)):
                    if isinstance(v, (ast.Tuple, ast.List)) and len(v.elts) == len(t.elts) \
                            and not any(isinstance(x, ast.Starred) for x in list(t.elts) + list(v.elts)):
                        ft += list(t.elts)
                        fv += list(v.elts)
                    else:
                        okf = False
                else:
                    ft.append(t)
                    fv.append(v)
            if okf and not any(isinstance(t, (ast.Tuple, ast.List)) for t in ft):
                # throw-away targets named `_` may repeat: keep the last only makes no difference to anyone
                node = ast.copy_location(ast.Assign(targets=[ast.Tuple(elts=ft, ctx=ast.Store())],
                                                    value=ast.Tuple(elts=fv, ctx=ast.Load()), type_comment=None), node)
                ast.fix_missing_locations(node)
                self.count += 1
        if len(node.targets) == 1 and isinstance(node.targets[0], (ast.Tuple, ast.List)) \
                and isinstance(node.value, (ast.Tuple, ast.List)) \
                and len(node.targets[0].elts) == len(node.value.elts) \
                and all(isinstance(t, ast.Name) or (isinstance(t, ast.Attribute) and _simple(t.value))
                        for t in node.targets[0].elts) \
                and not any(isinstance(v, ast.Starred) for v in node.value.elts):
            tnames = {t.id for t in node.targets[0].elts if isinstance(t, ast.Name)}
            vnames = {x.id for v in node.value.elts for x in ast.walk(v) if isinstance(x, ast.Name)}
            # attribute targets: no value may read a field of that name (x.a, x.b = x.b, x.a must stay parallel)
            tattrs = {t.attr for t in node.targets[0].elts if isinstance(t, ast.Attribute)}
            vattrs = {x.attr for v in node.value.elts for x in ast.walk(v) if isinstance(x, ast.Attribute)}
            towner_names = {x.id for t in node.targets[0].elts if isinstance(t, ast.Attribute)
                            for x in ast.walk(t.value) if isinstance(x, ast.Name)}

            def harmless_call(c):
                # copy.deepcopy(x, memo) / copy.copy(x) / pure builtins whose arguments do not involve the objects written
                fn = c.func
                nm = fn.attr if isinstance(fn, ast.Attribute) else (fn.id if isinstance(fn, ast.Name) else '')
                ok_fn = nm in ('deepcopy', 'copy') and (isinstance(fn, ast.Name) or (
                    isinstance(fn.value, ast.Name) and fn.value.id == 'copy')) or (isinstance(fn, ast.Name) and fn.id in PURE_CALLS)
                return ok_fn and not any(isinstance(x, ast.Name) and x.id in towner_names
                                         for a in list(c.args) + [k.value for k in c.keywords] for x in ast.walk(a))
            pure_vals = all(not isinstance(x, ast.Call) or harmless_call(x)
                            for v in node.value.elts for x in ast.walk(v)) or not tattrs
            if not (tnames & vnames) and (not tattrs or (len(node.targets[0].elts) == 1 or
                                                          not (tattrs & vattrs) or
                                                          self._distinct_owners(node))) and pure_vals:
                out = []
                for t, v in zip(node.targets[0].elts, node.value.elts):
                    a = ast.Assign(targets=[t], value=v, type_comment=None)
                    out.append(ast.copy_location(a, node))
                self.count += 1
                return out
        return node

    @staticmethod
    def _distinct_owners(node) -> bool:
        """`a.x, a.y = b.x, b.y`: the objects written (a) are never the objects read (b) by name"""
        towners = {ast.unparse(t.value) for t in node.targets[0].elts if isinstance(t, ast.Attribute)}
        vowners = {ast.unparse(x.value) for v in node.value.elts for x in ast.walk(v) if isinstance(x, ast.Attribute)}
        return not (towners & vowners)

    # ------------------------------------------------------------------ N9: annotated local -> plain assignment
    def visit_AnnAssign(self, node):
        self.generic_visit(node)
        if self.func_stack and node.value is not None and isinstance(node.target, ast.Name) and node.simple:
            new = ast.Assign(targets=[node.target], value=node.value, type_comment=None)
            self.count += 1
            return ast.copy_location(new, node)
        return node

    # ------------------------------------------------------------------ N5 / N6
    def visit_BinOp(self, node):
        self.generic_visit(node)
        if isinstance(node.op, ast.Add) and isinstance(node.left, ast.Constant) and isinstance(node.right, ast.Constant) \
                and isinstance(node.left.value, str) and isinstance(node.right.value, str):
            self.count += 1
            return ast.copy_location(ast.Constant(value=node.left.value + node.right.value), node)
        return node

    def visit_Compare(self, node):
        self.generic_visit(node)
        if len(node.ops) == 1 and isinstance(node.left, ast.Constant) and isinstance(node.comparators[0], ast.Constant) \
                and isinstance(node.ops[0], (ast.Eq, ast.NotEq)) and type(node.left.value) is type(node.comparators[0].value):
            self.count += 1
            v = node.left.value == node.comparators[0].value
            return ast.copy_location(ast.Constant(value=v if isinstance(node.ops[0], ast.Eq) else not v), node)
        # `None is None`, `int is None` (a function value handed to an inlined helper and tested there)
        if len(node.ops) == 1 and isinstance(node.ops[0], (ast.Is, ast.IsNot)):
            l, r = node.left, node.comparators[0]
            def kind(e):
                if isinstance(e, ast.Constant) and e.value is None:
                    return 'none'
                if isinstance(e, ast.Name) and e.id in ('int', 'str', 'float', 'bool', 'list', 'dict', 'set', 'tuple', 'len'):
                    return 'callable'
                if isinstance(e, ast.Lambda):
                    return 'callable'
                return None
            kl, kr = kind(l), kind(r)
            if kl and kr and 'none' in (kl, kr):
                same = kl == kr
                self.count += 1
                return ast.copy_location(ast.Constant(value=same if isinstance(node.ops[0], ast.Is) else not same), node)
        return node

    # ------------------------------------------------------------------ N14: return {'k': v, ..}  ->  built step by step
    def visit_Return(self, node):
        self.generic_visit(node)
        v = node.value
        if isinstance(v, ast.Dict) and v.keys and all(isinstance(k, ast.Constant) for k in v.keys):
            self.count += 1
            nm = f'__ret__u{self.count}'
            out = [ast.Assign(targets=[ast.Name(id=nm, ctx=ast.Store())], value=ast.Dict(keys=[], values=[]), type_comment=None)]
            for k, val in zip(v.keys, v.values):
                out.append(ast.Assign(targets=[ast.Subscript(value=ast.Name(id=nm, ctx=ast.Load()), slice=k, ctx=ast.Store())],
                                      value=val, type_comment=None))
            out.append(ast.Return(value=ast.Name(id=nm, ctx=ast.Load())))
            for o in out:
                ast.copy_location(o, node)
                ast.fix_missing_locations(o)
            return out
        return node

    def visit_UnaryOp(self, node):
        self.generic_visit(node)
        if isinstance(node.op, ast.Not) and isinstance(node.operand, ast.Constant) and isinstance(node.operand.value, bool):
            self.count += 1
            return ast.copy_location(ast.Constant(value=not node.operand.value), node)
        # `not (a == b)` -> `a != b` (and is / in): the same test, in the form the idiom recognisers know
        # (== / != on the repository's values are dataclass or builtin comparisons, where != is the negation of ==)
        if isinstance(node.op, ast.Not) and isinstance(node.operand, ast.Compare) and len(node.operand.ops) == 1:
            inv = {ast.Eq: ast.NotEq, ast.NotEq: ast.Eq, ast.Is: ast.IsNot, ast.IsNot: ast.Is, ast.In: ast.NotIn,
                   ast.NotIn: ast.In}.get(type(node.operand.ops[0]))
            if inv is not None:
                self.count += 1
                c = node.operand
                return ast.copy_location(ast.Compare(left=c.left, ops=[inv()], comparators=c.comparators), node)
        if isinstance(node.op, ast.Not) and isinstance(node.operand, ast.UnaryOp) and isinstance(node.operand.op, ast.Not) \
                and isinstance(node.operand.operand, ast.Compare):
            self.count += 1
            return node.operand.operand
        return node

    def visit_BoolOp(self, node):
        self.generic_visit(node)
        # `True and X` -> X ; `False and X` -> False ; `False or X` -> X ; `True or X` -> True  (leading constants only:
        # what follows a deciding constant is never evaluated, what follows a neutral one is the value)
        vals = list(node.values)
        is_and = isinstance(node.op, ast.And)
        changed = False
        while len(vals) > 1 and isinstance(vals[0], ast.Constant) and isinstance(vals[0].value, bool):
            if vals[0].value is is_and:
                vals.pop(0)             # neutral element
                changed = True
            else:
                vals = [vals[0]]        # decides
                changed = True
        if not changed:
            return node
        self.count += 1
        if len(vals) == 1:
            return vals[0]
        node.values = vals
        return node

    def visit_IfExp(self, node):
        self.generic_visit(node)
        if isinstance(node.test, ast.Constant):
            self.count += 1
            return node.body if node.test.value else node.orelse
        return node

    def visit_If(self, node):
        self.generic_visit(node)
        if isinstance(node.test, ast.Constant):
            self.count += 1
            keep = node.body if node.test.value else node.orelse
            return keep or [ast.copy_location(ast.Pass(), node)]
        # N6: if c: x = a  else: x = b   ->   x = a if c else b      (x a plain name or attribute)
        if len(node.body) == 1 and len(node.orelse) == 1 and all(
                isinstance(s, ast.Assign) and len(s.targets) == 1 and isinstance(s.targets[0], (ast.Name, ast.Attribute))
                for s in (node.body[0], node.orelse[0])) \
                and ast.dump(node.body[0].targets[0]) == ast.dump(node.orelse[0].targets[0]):
            a, b = node.body[0], node.orelse[0]
            tgt_names = {n.id for n in ast.walk(a.targets[0]) if isinstance(n, ast.Name)}
            test_reads_target = isinstance(a.targets[0], ast.Name) and a.targets[0].id in {
                n.id for n in ast.walk(node.test) if isinstance(n, ast.Name)}
            if not test_reads_target:
                new = ast.Assign(targets=[a.targets[0]],
                                 value=ast.IfExp(test=node.test, body=a.value, orelse=b.value), type_comment=None)
                ast.copy_location(new.value, node)
                self.count += 1
                return ast.copy_location(new, node)
        # N5: if E > T: T = E   ->   T = max(E, T)
        if not node.orelse and len(node.body) == 1 and isinstance(node.body[0], ast.Assign) \
                and len(node.body[0].targets) == 1 and isinstance(node.test, ast.Compare) \
                and len(node.test.ops) == 1:
            asg = node.body[0]
            T = asg.targets[0]
            E = asg.value
            l, r, op = node.test.left, node.test.comparators[0], node.test.ops[0]
            td, ed = ast.dump(T).replace('Store()', 'Load()'), ast.dump(E)
            ld, rd = ast.dump(l), ast.dump(r)
            if isinstance(T, (ast.Name, ast.Attribute)):
                # integer counters: `if a >= T: T = a + 1`  is  `T = max(a + 1, T)`  (a >= T  <=>  a + 1 > T)
                plus_one = None
                if isinstance(E, ast.BinOp) and isinstance(E.op, ast.Add) and isinstance(E.right, ast.Constant) \
                        and E.right.value == 1:
                    plus_one = ast.dump(E.left)
                succ = (isinstance(op, ast.GtE) and ld == plus_one and rd == td) or \
                       (isinstance(op, ast.LtE) and rd == plus_one and ld == td)
                if succ or (isinstance(op, (ast.Gt, ast.GtE)) and ld == ed and rd == td) or \
                        (isinstance(op, (ast.Lt, ast.LtE)) and rd == ed and ld == td):
                    load_t = copy.deepcopy(T)
                    for n in ast.walk(load_t):
                        if hasattr(n, 'ctx'):
                            n.ctx = ast.Load()
                    new = ast.Assign(targets=[T], value=ast.Call(func=ast.Name(id='max', ctx=ast.Load()),
                                                                 args=[E, load_t], keywords=[]), type_comment=None)
                    self.count += 1
                    return ast.copy_location(new, node)
        return node

    # ------------------------------------------------------------------ N2
    def _beta(self, node):
        """(lambda a, b: body)(x, y)  ->  body[a := x, b := y]   (simple arguments only)"""
        f = node.func
        if isinstance(f, ast.Lambda) and not node.keywords and len(node.args) == len(f.args.args) \
                and not (f.args.vararg or f.args.kwarg or f.args.kwonlyargs or f.args.defaults) \
                and all(_simple(a) or isinstance(a, (ast.Subscript, ast.Call)) for a in node.args):
            counts = {}
            for n in ast.walk(f.body):
                if isinstance(n, ast.Name):
                    counts[n.id] = counts.get(n.id, 0) + 1
            # an argument that is not a plain value may be substituted only where it is used exactly once
            for prm, a in zip(f.args.args, node.args):
                if not _simple(a) and counts.get(prm.arg, 0) != 1:
                    return None
            mapping = {prm.arg: a for prm, a in zip(f.args.args, node.args)}
            self.count += 1
            return _Subst(mapping).visit(copy.deepcopy(f.body))
        return None

    def _literal_iter(self, it):
        if isinstance(it, (ast.Tuple, ast.List)):
            lit = it
        elif isinstance(it, ast.Name) and self.const_locals and it.id in self.const_locals[-1]:
            lit = self.const_locals[-1][it.id]
        elif isinstance(it, ast.Name) and self.func_stack:
            # a local bound ONCE to a literal tuple / list of call-free expressions over names that are not re-assigned
            fn = self.func_stack[-1]
            defs = [a for a in ast.walk(fn) if isinstance(a, ast.Assign) and len(a.targets) == 1
                    and isinstance(a.targets[0], ast.Name) and a.targets[0].id == it.id]
            nstores = sum(1 for x in ast.walk(fn) if isinstance(x, ast.Name) and x.id == it.id and isinstance(x.ctx, (ast.Store, ast.Del)))
            if len(defs) != 1 or nstores != 1 or not isinstance(defs[0].value, (ast.Tuple, ast.List)):
                return None
            lit = defs[0].value
            if any(isinstance(x, (ast.Call, ast.NamedExpr, ast.Lambda, ast.Await, ast.Yield, ast.Starred)) for x in ast.walk(lit)):
                return None
            used = {x.id for x in ast.walk(lit) if isinstance(x, ast.Name)}
            params = {a.arg for a in fn.args.posonlyargs + fn.args.args + fn.args.kwonlyargs}
            for u in used:
                n_ = sum(1 for x in ast.walk(fn) if isinstance(x, ast.Name) and x.id == u and isinstance(x.ctx, (ast.Store, ast.Del)))
                if n_ > (0 if u in params else 1):
                    return None
            if 0 < len(lit.elts) <= MAX_ELTS:
                return lit
            return None
        else:
            return None
        if 0 < len(lit.elts) <= MAX_ELTS and all(_simple(e) for e in lit.elts):
            return lit
        return None

    def visit_Call(self, node):
        r_ = self._beta(node)
        if r_ is not None:
            return self.visit(r_)
        self.generic_visit(node)
        # N25: tuple(E(x) for x in <literal>) / list(..)  ->  the literal (E(a), E(b), ..)
        if isinstance(node.func, ast.Name) and node.func.id in ('tuple', 'list') and len(node.args) == 1 and not node.keywords \
                and isinstance(node.args[0], (ast.GeneratorExp, ast.ListComp)) and len(node.args[0].generators) == 1:
            g = node.args[0].generators[0]
            lit = self._literal_iter(g.iter)
            if lit is not None and not g.ifs and not g.is_async \
                    and not any(isinstance(x, (ast.NamedExpr, ast.Lambda, ast.Yield, ast.Await)) for x in ast.walk(node.args[0].elt)):
                vals = []
                for e in lit.elts:
                    m = {}
                    if not _bind(g.target, e, m):
                        vals = None
                        break
                    vals.append(_Subst(m).visit(copy.deepcopy(node.args[0].elt)))
                if vals is not None:
                    self.count += 1
                    new = (ast.Tuple if node.func.id == 'tuple' else ast.List)(elts=vals, ctx=ast.Load())
                    return ast.fix_missing_locations(ast.copy_location(new, node))
        # N28: any(C(x) for x in <literal>)  ->  C(a) or C(b) ;  all(..)  ->  C(a) and C(b)   (same short-circuit order)
        if isinstance(node.func, ast.Name) and node.func.id in ('any', 'all') and len(node.args) == 1 and not node.keywords \
                and isinstance(node.args[0], (ast.GeneratorExp, ast.ListComp)) and len(node.args[0].generators) == 1:
            g = node.args[0].generators[0]
            lit = self._literal_iter(g.iter)
            if lit is not None and not g.is_async and len(lit.elts) >= 1 \
                    and not any(isinstance(x, (ast.NamedExpr, ast.Lambda, ast.Yield, ast.Await)) for x in ast.walk(node.args[0])):
                vals, ok = [], True
                for e in lit.elts:
                    m = {}
                    if not _bind(g.target, e, m):
                        ok = False
                        break
                    parts = [_Subst(m).visit(copy.deepcopy(t)) for t in g.ifs] + [_Subst(m).visit(copy.deepcopy(node.args[0].elt))]
                    if node.func.id == 'any':
                        vals.append(parts[0] if len(parts) == 1 else ast.BoolOp(op=ast.And(), values=parts))
                    else:
                        # all(E for x if C): elements failing C are skipped -> (not C) or E
                        if len(parts) == 1:
                            vals.append(parts[0])
                        else:
                            vals.append(ast.BoolOp(op=ast.Or(), values=[ast.UnaryOp(op=ast.Not(), operand=ast.BoolOp(op=ast.And(), values=parts[:-1]) if len(parts) > 2 else parts[0]), parts[-1]]))
                if ok:
                    self.count += 1
                    res = vals[0] if len(vals) == 1 else ast.BoolOp(op=ast.Or() if node.func.id == 'any' else ast.And(), values=vals)
                    return ast.fix_missing_locations(ast.copy_location(res, node))
        # N26: next((E(x) for x in <literal> if C(x)), d)  ->  E(a) if C(a) else (E(b) if C(b) else d)
        if isinstance(node.func, ast.Name) and node.func.id == 'next' and len(node.args) == 2 and not node.keywords \
                and isinstance(node.args[0], ast.GeneratorExp) and len(node.args[0].generators) == 1:
            g = node.args[0].generators[0]
            lit = self._literal_iter(g.iter)
            if lit is not None and not g.is_async and _simple(node.args[1]) \
                    and not any(isinstance(x, (ast.NamedExpr, ast.Lambda, ast.Yield, ast.Await, ast.Call))
                                for x in ast.walk(node.args[0].elt)):
                res = node.args[1]
                ok = True
                for e in reversed(lit.elts):
                    m = {}
                    if not _bind(g.target, e, m):
                        ok = False
                        break
                    elt = _Subst(m).visit(copy.deepcopy(node.args[0].elt))
                    if g.ifs:
                        tests = [_Subst(m).visit(copy.deepcopy(t)) for t in g.ifs]
                        tst = tests[0] if len(tests) == 1 else ast.BoolOp(op=ast.And(), values=tests)
                        res = ast.IfExp(test=tst, body=elt, orelse=res)
                    else:
                        res = elt
                if ok:
                    self.count += 1
                    return ast.fix_missing_locations(ast.copy_location(res, node))
        # 'a.b'.split('.') on constants (a table of dotted keys unrolled by N1)
        if isinstance(node.func, ast.Attribute) and node.func.attr == 'split' and isinstance(node.func.value, ast.Constant) \
                and isinstance(node.func.value.value, str) and len(node.args) == 1 and not node.keywords \
                and isinstance(node.args[0], ast.Constant) and isinstance(node.args[0].value, str) and node.args[0].value:
            parts = node.func.value.value.split(node.args[0].value)
            self.count += 1
            return ast.copy_location(ast.Tuple(elts=[ast.Constant(value=x) for x in parts], ctx=ast.Load()), node)
        if isinstance(node.func, ast.Name) and node.func.id == 'getattr' and len(node.args) == 2 \
                and not node.keywords and isinstance(node.args[1], ast.Constant) \
                and isinstance(node.args[1].value, str) and node.args[1].value.isidentifier():
            new = ast.Attribute(value=node.args[0], attr=node.args[1].value, ctx=ast.Load())
            self.count += 1
            return ast.copy_location(new, node)
        return node

    def visit_Expr(self, node):
        self.generic_visit(node)
        v = node.value
        if isinstance(v, ast.Call) and isinstance(v.func, ast.Name) and v.func.id == 'setattr' and len(v.args) == 3 \
                and not v.keywords and isinstance(v.args[1], ast.Constant) and isinstance(v.args[1].value, str) \
                and v.args[1].value.isidentifier():
            tgt = ast.Attribute(value=v.args[0], attr=v.args[1].value, ctx=ast.Store())
            ast.copy_location(tgt, v)
            new = ast.Assign(targets=[tgt], value=v.args[2], type_comment=None)
            self.count += 1
            return ast.copy_location(new, node)
        # N19  D.update({K: V for x in C if c})  ->  for x in C: if c: D[K] = V ;  D.update({'a': 1, ..})  ->  D['a'] = 1 ; ..
        if isinstance(v, ast.Call) and isinstance(v.func, ast.Attribute) and v.func.attr == 'update' and len(v.args) == 1 \
                and not v.keywords and isinstance(v.args[0], (ast.DictComp, ast.Dict)) \
                and all(not isinstance(x, ast.Call) for x in ast.walk(v.func.value)):
            D = v.func.value
            a0 = v.args[0]
            if isinstance(a0, ast.DictComp) and len(a0.generators) == 1 and not a0.generators[0].is_async:
                g = a0.generators[0]
                store = ast.Assign(targets=[ast.Subscript(value=copy.deepcopy(D), slice=a0.key, ctx=ast.Store())],
                                   value=a0.value, type_comment=None)
                body = [store]
                for cnd in reversed(g.ifs):
                    body = [ast.If(test=cnd, body=body, orelse=[])]
                new = ast.For(target=g.target, iter=g.iter, body=body, orelse=[], type_comment=None)
                for x in ast.walk(new):
                    ast.copy_location(x, node)
                ast.fix_missing_locations(new)
                self.count += 1
                return new
            if isinstance(a0, ast.Dict) and a0.keys and all(k is not None for k in a0.keys):
                out = []
                for k, val in zip(a0.keys, a0.values):
                    st_ = ast.Assign(targets=[ast.Subscript(value=copy.deepcopy(D), slice=k, ctx=ast.Store())], value=val,
                                     type_comment=None)
                    ast.copy_location(st_, node)
                    ast.fix_missing_locations(st_)
                    out.append(st_)
                self.count += 1
                return out
        # N15  d.setdefault(k, []).append(v)  ->  if k in d: d[k].append(v) else: d[k] = [v]   (d, k pure reads)
        if isinstance(v, ast.Call) and isinstance(v.func, ast.Attribute) and v.func.attr == 'append' and len(v.args) == 1 \
                and not v.keywords and isinstance(v.func.value, ast.Call) and isinstance(v.func.value.func, ast.Attribute) \
                and v.func.value.func.attr == 'setdefault' and len(v.func.value.args) == 2 and not v.func.value.keywords:
            sd = v.func.value
            d_, k_, dflt = sd.func.value, sd.args[0], sd.args[1]
            empty_list = (isinstance(dflt, ast.List) and not dflt.elts) or (
                isinstance(dflt, ast.Call) and isinstance(dflt.func, ast.Name) and dflt.func.id == 'list' and not dflt.args)

            def pure(e):
                return all(not isinstance(x, (ast.Call, ast.NamedExpr, ast.Await, ast.Yield)) or
                           (isinstance(x, ast.Call) and isinstance(x.func, ast.Name) and x.func.id in ('str', 'int', 'len', 'id'))
                           for x in ast.walk(e))
            if empty_list and pure(d_) and pure(k_):
                test = ast.Compare(left=copy.deepcopy(k_), ops=[ast.In()], comparators=[copy.deepcopy(d_)])
                hit = ast.Expr(value=ast.Call(func=ast.Attribute(
                    value=ast.Subscript(value=copy.deepcopy(d_), slice=copy.deepcopy(k_), ctx=ast.Load()),
                    attr='append', ctx=ast.Load()), args=[copy.deepcopy(v.args[0])], keywords=[]))
                miss = ast.Assign(targets=[ast.Subscript(value=copy.deepcopy(d_), slice=copy.deepcopy(k_), ctx=ast.Store())],
                                  value=ast.List(elts=[v.args[0]], ctx=ast.Load()), type_comment=None)
                new = ast.If(test=test, body=[hit], orelse=[miss])
                for x in ast.walk(new):
                    ast.copy_location(x, node)
                ast.fix_missing_locations(new)
                self.count += 1
                return new
        return node


# ---------------------------------------------------------------------------------------------- N4
PURE_CALLS = {'id', 'len', 'str', 'int', 'float', 'bool', 'isinstance', 'getattr', 'hasattr', 'list', 'tuple', 'dict',
              'set', 'sorted', 'repr', 'type', 'max', 'min', 'any', 'all', 'sum', 'enumerate', 'zip', 'range'}


def _alias_rhs(e) -> bool:
    """right-hand sides whose value is an existing object / scalar found by pure navigation."""
    if isinstance(e, (ast.Name, ast.Constant)):
        return True
    if isinstance(e, ast.Compare) and len(e.ops) == 1 and isinstance(e.ops[0], (ast.In, ast.NotIn, ast.Is, ast.IsNot, ast.Eq, ast.NotEq)):
        # a named test (`taken = key in self._index`): pure, re-evaluated at its use
        return _alias_rhs(e.left) and _alias_rhs(e.comparators[0])
    if isinstance(e, ast.UnaryOp) and isinstance(e.op, ast.Not):
        return _alias_rhs(e.operand)
    if isinstance(e, ast.Attribute):
        return _alias_rhs(e.value)
    if isinstance(e, ast.Subscript):
        return _alias_rhs(e.value) and (_alias_rhs(e.slice) or (
            isinstance(e.slice, ast.Call) and isinstance(e.slice.func, ast.Name) and e.slice.func.id == 'id'
            and len(e.slice.args) == 1 and _alias_rhs(e.slice.args[0])))
    if isinstance(e, ast.Call) and isinstance(e.func, ast.Name) and e.func.id == 'id' and len(e.args) == 1:
        return _alias_rhs(e.args[0])
    return False


def _disturbs(stmt, names, attrs, subs, alias=None) -> bool:
    """could executing `stmt` change what the aliased expression denotes?  (a store INTO the aliased object through the
    alias itself - `alias[k] = v` - changes the object's content, not which object the expression denotes)"""
    for n in ast.walk(stmt):
        if isinstance(n, ast.Name) and isinstance(n.ctx, (ast.Store, ast.Del)) and n.id in names:
            return True
        if isinstance(n, ast.Attribute) and isinstance(n.ctx, (ast.Store, ast.Del)) and n.attr in attrs:
            return True
        if isinstance(n, ast.Subscript) and isinstance(n.ctx, (ast.Store, ast.Del)) and subs:
            if alias is not None and isinstance(n.value, ast.Name) and n.value.id == alias:
                continue
            return True
        if isinstance(n, ast.Call):
            f = n.func
            if isinstance(f, ast.Name) and f.id in PURE_CALLS:
                continue
            if isinstance(f, ast.Attribute) and isinstance(f.value, ast.Name) and f.value.id in ('logger', 'logging', 'copy'):
                continue
            if isinstance(f, ast.Attribute) and (isinstance(f.value, ast.Name) or (
                    isinstance(f.value, ast.Attribute) and isinstance(f.value.value, ast.Name))) and not subs \
                    and f.attr in ('append', 'extend', 'remove', 'insert', 'clear', 'add', 'discard', 'index', 'count',
                                   'sort', 'reverse') \
                    and all(isinstance(a, (ast.Name, ast.Constant)) for a in n.args) and not n.keywords:
                # a container method on a LOCAL name (a list / set the function holds): changes that container's
                # content, rebinds no attribute of any object
                continue
            if attrs or subs:
                return True          # an arbitrary call may rebind a field / item the alias goes through
    return False


class _CopyProp:
    """x = <pure navigation>   (x bound once in the function, every use after the binding in the same or a
    nested block, nothing in between that could change what the expression denotes)  ->  uses replaced."""

    def __init__(self):
        self.count = 0

    def run(self, func):
        stores = {}
        comp_scoped = set()
        for n in ast.walk(func):
            if isinstance(n, ast.comprehension):
                comp_scoped |= {id(x) for x in ast.walk(n.target)}
        for n in ast.walk(func):
            if isinstance(n, ast.Name) and isinstance(n.ctx, (ast.Store, ast.Del)) and id(n) not in comp_scoped:
                stores[n.id] = stores.get(n.id, 0) + 1
            if isinstance(n, (ast.Global, ast.Nonlocal)):
                return
        params = {a.arg for a in func.args.posonlyargs + func.args.args + func.args.kwonlyargs}
        for blk in self._blocks(func):
            i = 0
            while i < len(blk):
                st = blk[i]
                if isinstance(st, ast.Assign) and len(st.targets) == 1 and isinstance(st.targets[0], ast.Name) \
                        and _alias_rhs(st.value) and (not isinstance(st.value, ast.Constant) or
                                                       '__u' in st.targets[0].id):      # element of an unrolled table
                    x = st.targets[0].id
                    if stores.get(x) == 1 and x not in params and self._try(func, blk, i, x, st.value, stores, params):
                        del blk[i]
                        if not blk:
                            blk.append(ast.copy_location(ast.Pass(), st))
                        self.count += 1
                        continue
                i += 1

    def _blocks(self, func):
        out = []
        for n in ast.walk(func):
            if n is not func and isinstance(n, (ast.FunctionDef, ast.AsyncFunctionDef, ast.ClassDef, ast.Lambda)):
                continue
            for fld in ('body', 'orelse', 'finalbody'):
                b = getattr(n, fld, None)
                if isinstance(b, list) and b and isinstance(b[0], ast.stmt):
                    out.append(b)
        return out

    def _try(self, func, blk, i, x, rhs, stores, params) -> bool:
        rest = blk[i + 1:]
        # every use of x lies in the statements after the binding, in this block
        uses_in_rest = sum(1 for s in rest for n in ast.walk(s) if isinstance(n, ast.Name) and n.id == x)
        uses_all = sum(1 for n in ast.walk(func) if isinstance(n, ast.Name) and n.id == x
                       and isinstance(n.ctx, ast.Load))
        if uses_all == 0 or uses_in_rest != uses_all:
            return False
        # nested functions / lambdas capturing x: leave alone
        for s in rest:
            for n in ast.walk(s):
                if isinstance(n, (ast.FunctionDef, ast.Lambda, ast.AsyncFunctionDef)) and \
                        any(isinstance(m, ast.Name) and m.id == x for m in ast.walk(n)):
                    return False
        names = {n.id for n in ast.walk(rhs) if isinstance(n, ast.Name)}
        if any(stores.get(nm, 0) > 1 for nm in names):
            # a loop variable bound once by `for` counts as 1; anything re-assigned is not stable
            return False
        attrs = {n.attr for n in ast.walk(rhs) if isinstance(n, ast.Attribute)}
        subs = any(isinstance(n, ast.Subscript) for n in ast.walk(rhs))
        # statements executed between the binding and the last use must not disturb the expression; the
        # statement holding a use may store into the same field AFTER evaluating the use (x.f = g(alias))
        last = max(k for k, s in enumerate(rest) if any(isinstance(n, ast.Name) and n.id == x for n in ast.walk(s)))
        for k_, s in enumerate(rest[:last + 1]):
            if k_ == last and isinstance(s, ast.If):
                # the last uses sit in the tests of this if / elif chain: the tests are evaluated one after the other
                # with no branch body in between (a body runs only after the test that selects it, and ends the chain)
                tests, bodies, cur_ = [], [], s
                while True:
                    tests.append(cur_.test)
                    bodies.extend(cur_.body)
                    if len(cur_.orelse) == 1 and isinstance(cur_.orelse[0], ast.If):
                        cur_ = cur_.orelse[0]
                    else:
                        bodies.extend(cur_.orelse)
                        break
                if not any(isinstance(n, ast.Name) and n.id == x for b in bodies for n in ast.walk(b)):
                    if any(_disturbs(ast.Expr(value=t_), names, attrs, subs) for t_ in tests):
                        return False
                    continue
            if self._disturbing_before_use(s, x, names, attrs, subs):
                return False
        # ordered walk: once a statement has stored into a field / item the expression reads (x = a.f ... a.f = v),
        # every LATER use of x would see the new value after substitution
        if not self._ordered_ok(rest[:last + 1], x, attrs, subs, False)[0]:
            return False
        # inside a loop body the binding is re-evaluated per iteration: fine (same block)
        sub = _Subst({x: rhs})
        for k in range(last + 1):
            rest[k] = sub.visit(rest[k])
        blk[i + 1:] = rest
        return True

    def _ordered_ok(self, stmts, x, attrs, subs, stored):
        """-> (ok, stored_after): walks statements in execution order; `stored` = a field the aliased expression reads
        may have been written already."""
        def uses(n):
            return any(isinstance(m, ast.Name) and m.id == x and isinstance(m.ctx, ast.Load) for m in ast.walk(n))

        def stores(n):
            for m in ast.walk(n):
                if isinstance(m, ast.Attribute) and isinstance(m.ctx, (ast.Store, ast.Del)) and m.attr in attrs:
                    return True
                if subs and isinstance(m, ast.Subscript) and isinstance(m.ctx, (ast.Store, ast.Del)) \
                        and not (isinstance(m.value, ast.Name) and m.value.id == x):
                    return True
                if isinstance(m, ast.Call) and isinstance(m.func, ast.Name) and m.func.id in ('setattr', 'delattr'):
                    return True
            return False
        for s in stmts:
            if isinstance(s, ast.If):
                if stored and uses(s.test):
                    return False, stored
                ok1, st1 = self._ordered_ok(s.body, x, attrs, subs, stored)
                ok2, st2 = self._ordered_ok(s.orelse, x, attrs, subs, stored)
                if not (ok1 and ok2):
                    return False, stored
                stored = st1 or st2
            elif isinstance(s, (ast.For, ast.While, ast.AsyncFor)):
                if uses(s) and (stored or stores(s)):
                    return False, stored
                stored = stored or stores(s)
            elif isinstance(s, (ast.Try, ast.With, ast.AsyncWith, ast.Match)):
                if uses(s) and (stored or stores(s)):
                    return False, stored
                stored = stored or stores(s)
            else:
                if stored and uses(s):
                    return False, stored
                # x.f = g(alias): the use is evaluated before the store of the same statement
                stored = stored or stores(s)
        return True, stored

    def _disturbing_before_use(self, s, x, names, attrs, subs) -> bool:
        """conservative: inside statement s, anything disturbing that is not the top-level store target of a simple
        statement whose value holds the use."""
        if isinstance(s, (ast.Assign, ast.AugAssign, ast.AnnAssign, ast.Expr, ast.Return)):
            val = getattr(s, 'value', None)
            if val is not None and _disturbs(ast.Expr(value=val), names, attrs, subs, x):
                return True
            tg = s.targets if isinstance(s, ast.Assign) else ([s.target] if hasattr(s, 'target') else [])
            for t in tg:
                for n in ast.walk(t):
                    if isinstance(n, ast.Name) and isinstance(n.ctx, ast.Store) and n.id in names:
                        return True
                # a store into the aliased field disturbs LATER statements only; flag it if x is used later
                # (handled by the caller walking statements in order: mark via attribute)
            if tg and any(isinstance(n, ast.Attribute) and isinstance(n.ctx, ast.Store) and n.attr in attrs
                          for t in tg for n in ast.walk(t)):
                self._stored_after = True
            return False
        if isinstance(s, ast.If):
            if _disturbs(ast.Expr(value=s.test), names, attrs, subs, x):
                return True
            return any(self._disturbing_before_use(b, x, names, attrs, subs) for b in s.body + s.orelse)
        if isinstance(s, (ast.For, ast.While)):
            # a loop may run its body several times: a store inside it precedes the next iteration's use
            return _disturbs(s, names, attrs, subs, x)
        return _disturbs(s, names, attrs, subs, x)


def _rename_iteration_locals(stmts, suffix, outside_reads):
    """locals bound inside an unrolled copy get a per-copy name (unless read after the loop)."""
    bound = _assigned_names(stmts) - outside_reads
    if not bound:
        return stmts

    class R(ast.NodeTransformer):
        def visit_Name(self, node):
            if node.id in bound:
                return ast.copy_location(ast.Name(id=f'{node.id}__{suffix}', ctx=node.ctx), node)
            return node
    return [R().visit(s) for s in stmts]


# ---------------------------------------------------------------------------------------------- N7
def _search_loops(tree) -> int:
    """x = None ; for e in C: if cond: x = e ; break      ->      x = next((e for e in C if cond), None)"""
    count = 0
    for parent in ast.walk(tree):
        for fld in ('body', 'orelse', 'finalbody'):
            blk = getattr(parent, fld, None)
            if not (isinstance(blk, list) and blk and isinstance(blk[0], ast.stmt)):
                continue
            i = 0
            while i + 1 < len(blk):
                a, lp = blk[i], blk[i + 1]
                if isinstance(a, ast.Assign) and len(a.targets) == 1 and isinstance(a.targets[0], ast.Name) \
                        and isinstance(a.value, ast.Constant) and a.value.value is None \
                        and isinstance(lp, ast.For) and not lp.orelse and isinstance(lp.target, ast.Name) \
                        and len(lp.body) == 1 and isinstance(lp.body[0], ast.If) and not lp.body[0].orelse:
                    x = a.targets[0].id
                    iff = lp.body[0]
                    b = iff.body
                    if len(b) == 2 and isinstance(b[0], ast.Assign) and len(b[0].targets) == 1 \
                            and isinstance(b[0].targets[0], ast.Name) and b[0].targets[0].id == x \
                            and isinstance(b[0].value, ast.Name) and b[0].value.id == lp.target.id \
                            and isinstance(b[1], ast.Break):
                        gen = ast.GeneratorExp(
                            elt=ast.Name(id=lp.target.id, ctx=ast.Load()),
                            generators=[ast.comprehension(target=lp.target, iter=lp.iter, ifs=[iff.test], is_async=0)])
                        new = ast.Assign(targets=[a.targets[0]],
                                         value=ast.Call(func=ast.Name(id='next', ctx=ast.Load()),
                                                        args=[gen, ast.Constant(value=None)], keywords=[]),
                                         type_comment=None)
                        ast.copy_location(new, lp)
                        ast.fix_missing_locations(new)
                        blk[i:i + 2] = [new]
                        count += 1
                        continue
                i += 1
    # N7b  for e in C: if cond: return e      followed by `return None` (or the end of the function)
    #      ->  return next((e for e in C if cond), None)
    for fn in ast.walk(tree):
        if not isinstance(fn, (ast.FunctionDef, ast.AsyncFunctionDef)):
            continue
        blk = fn.body
        for i, lp in enumerate(blk):
            if isinstance(lp, ast.For) and not lp.orelse and isinstance(lp.target, ast.Name) and len(lp.body) == 1 \
                    and isinstance(lp.body[0], ast.If) and not lp.body[0].orelse and len(lp.body[0].body) == 1 \
                    and isinstance(lp.body[0].body[0], ast.Return) and isinstance(lp.body[0].body[0].value, ast.Name) \
                    and lp.body[0].body[0].value.id == lp.target.id:
                rest = blk[i + 1:]
                tail_none = (not rest) or (len(rest) == 1 and isinstance(rest[0], ast.Return) and (
                    rest[0].value is None or (isinstance(rest[0].value, ast.Constant) and rest[0].value.value is None)))
                if tail_none:
                    gen = ast.GeneratorExp(elt=ast.Name(id=lp.target.id, ctx=ast.Load()), generators=[
                        ast.comprehension(target=lp.target, iter=lp.iter, ifs=[lp.body[0].test], is_async=0)])
                    new = ast.Return(value=ast.Call(func=ast.Name(id='next', ctx=ast.Load()),
                                                    args=[gen, ast.Constant(value=None)], keywords=[]))
                    ast.copy_location(new, lp)
                    ast.fix_missing_locations(new)
                    blk[i:] = [new]
                    count += 1
                    break
    return count


# ---------------------------------------------------------------------------------------------- N11 / N12
_PURE_CALLS = {'hasattr', 'len', 'isinstance', 'str', 'getattr', 'int', 'float', 'bool', 'type', 'id'}


def _pure_test(e) -> bool:
    for n in ast.walk(e):
        if isinstance(n, ast.Call) and not (isinstance(n.func, ast.Name) and n.func.id in _PURE_CALLS):
            return False
        if isinstance(n, (ast.NamedExpr, ast.Await, ast.Yield, ast.YieldFrom, ast.Lambda)):
            return False
    return True


def _ends_in_raise(b) -> bool:
    return bool(b) and isinstance(b[-1], ast.Raise)


def _same(a, b) -> bool:
    if isinstance(a, list):
        return isinstance(b, list) and len(a) == len(b) and all(_same(x, y) for x, y in zip(a, b))
    return ast.dump(a) == ast.dump(b)


def _strip_peeled(x, loop) -> bool:
    """x is the statement right before `while C: S`.  A trailing `if C: S` on any path through x is the first
    iteration of the loop written out (while C: S == if C: {S; while C: S}): remove it.  True when x became empty."""
    if isinstance(x, ast.If) and not x.orelse and _same(x.test, loop.test) and _same(x.body, loop.body):
        return True
    if isinstance(x, ast.If):
        for fld in ('body', 'orelse'):
            b = getattr(x, fld)
            if b and _strip_peeled(b[-1], loop):
                b.pop()
                if not b and fld == 'body':
                    b.append(ast.copy_location(ast.Pass(), x))
    return False


def _raise_split_and_unpeel(tree) -> int:
    """N11  `if C: (if A: S else: raise E)`  ->  `if C and not A: raise E` ; `if C: S`     (C, A pure tests)
       N12  `if C: S` directly before `while C: S` (also as the tail of a branch)  ->  dropped."""
    count = 0
    for parent in ast.walk(tree):
        for fld in ('body', 'orelse', 'finalbody'):
            blk = getattr(parent, fld, None)
            if not (isinstance(blk, list) and blk and isinstance(blk[0], ast.stmt)):
                continue
            i = 0
            while i < len(blk):
                st = blk[i]
                if isinstance(st, ast.If) and not st.orelse and len(st.body) == 1 and isinstance(st.body[0], ast.If) \
                        and st.body[0].orelse and _pure_test(st.test) and _pure_test(st.body[0].test):
                    inner = st.body[0]
                    rb, ob, neg = None, None, False
                    if _ends_in_raise(inner.orelse) and not _ends_in_raise(inner.body) \
                            and not any(isinstance(x, ast.If) for x in inner.orelse):
                        rb, ob, neg = inner.orelse, inner.body, True
                    elif _ends_in_raise(inner.body) and not _ends_in_raise(inner.orelse):
                        rb, ob, neg = inner.body, inner.orelse, False
                    if rb is not None:
                        a = ast.UnaryOp(op=ast.Not(), operand=copy.deepcopy(inner.test)) if neg else copy.deepcopy(inner.test)
                        g = ast.If(test=ast.BoolOp(op=ast.And(), values=[copy.deepcopy(st.test), a]), body=rb, orelse=[])
                        rest = ast.If(test=st.test, body=ob, orelse=[])
                        ast.copy_location(g, st)
                        ast.copy_location(rest, inner)
                        blk[i:i + 1] = [g, rest]
                        count += 1
                        i += 2
                        continue
                i += 1
    for parent in ast.walk(tree):
        for fld in ('body', 'orelse', 'finalbody'):
            blk = getattr(parent, fld, None)
            if not (isinstance(blk, list) and blk and isinstance(blk[0], ast.stmt)):
                continue
            i = 1
            while i < len(blk):
                if isinstance(blk[i], ast.While) and not blk[i].orelse:
                    before = ast.dump(blk[i - 1])
                    if _strip_peeled(blk[i - 1], blk[i]):
                        del blk[i - 1]
                        count += 1
                        continue
                    if ast.dump(blk[i - 1]) != before:
                        count += 1
                i += 1
    return count



# ---------------------------------------------------------------------------------------------- N13
def _fold_named_constants(tree) -> int:
    """NAME = <str / number constant> at module or class level, UPPER_CASE name, bound once and never stored to as
    an attribute anywhere in the module  ->  loads of NAME / self.NAME / cls.NAME / Class.NAME become the constant."""
    count = 0
    attr_stores = {n.attr for n in ast.walk(tree) if isinstance(n, ast.Attribute) and isinstance(n.ctx, (ast.Store, ast.Del))}
    name_stores = {}
    for n in ast.walk(tree):
        if isinstance(n, ast.Name) and isinstance(n.ctx, (ast.Store, ast.Del)):
            name_stores[n.id] = name_stores.get(n.id, 0) + 1
        if isinstance(n, ast.Global):
            for g in n.names:
                name_stores[g] = name_stores.get(g, 0) + 2

    def consts_of(body):
        out = {}
        for st in body:
            tg_, v_ = None, None
            if isinstance(st, ast.Assign) and len(st.targets) == 1 and isinstance(st.targets[0], ast.Name):
                tg_, v_ = st.targets[0], st.value
            elif isinstance(st, ast.AnnAssign) and isinstance(st.target, ast.Name) and st.value is not None:
                tg_, v_ = st.target, st.value
            scalar = isinstance(v_, ast.Constant) and isinstance(v_.value, (str, int, float)) and not isinstance(v_.value, bool)
            # a tuple of string constants (file extensions, type names): usable wherever the name is read
            strtuple = isinstance(v_, ast.Tuple) and v_.elts and all(
                isinstance(e, ast.Constant) and isinstance(e.value, str) for e in v_.elts)
            if tg_ is not None and (scalar or strtuple):
                nm = tg_.id
                if nm.strip('_').isupper() and name_stores.get(nm) == 1 and nm not in attr_stores:
                    out[nm] = v_
        return out
    mod_consts = consts_of(tree.body)
    class_consts = {c.name: consts_of(c.body) for c in tree.body if isinstance(c, ast.ClassDef)}

    class Fold(ast.NodeTransformer):
        def __init__(self, cls):
            self.cls = cls

        def visit_ClassDef(self, node):
            old, self.cls = self.cls, node.name
            self.generic_visit(node)
            self.cls = old
            return node

        def visit_Name(self, node):
            nonlocal count
            if isinstance(node.ctx, ast.Load) and node.id in mod_consts:
                count += 1
                return ast.copy_location(copy.deepcopy(mod_consts[node.id]), node)
            return node

        def visit_Attribute(self, node):
            nonlocal count
            self.generic_visit(node)
            if isinstance(node.ctx, ast.Load) and isinstance(node.value, ast.Name):
                owner = None
                if node.value.id in ('self', 'cls') and self.cls:
                    owner = self.cls
                elif node.value.id in class_consts:
                    owner = node.value.id
                if owner and node.attr in class_consts.get(owner, {}):
                    count += 1
                    return ast.copy_location(copy.deepcopy(class_consts[owner][node.attr]), node)
            return node
    Fold(None).visit(tree)
    return count



# ---------------------------------------------------------------------------------------------- N16
def _setdefault_on_fresh_dict(tree) -> int:
    """d = {<constant keys>} ... v = d.setdefault('k', {})  (k not among the keys, not stored in between)
       ->  d['k'] = {} ; v = d['k']"""
    count = 0
    for parent in ast.walk(tree):
        for fld in ('body', 'orelse', 'finalbody'):
            blk = getattr(parent, fld, None)
            if not (isinstance(blk, list) and blk and isinstance(blk[0], ast.stmt)):
                continue
            lits = {}      # name -> set of constant keys known to be present (dict literal bound in this block)
            i = 0
            while i < len(blk):
                st = blk[i]
                if isinstance(st, ast.Assign) and len(st.targets) == 1 and isinstance(st.targets[0], ast.Name):
                    nm = st.targets[0].id
                    v = st.value
                    if isinstance(v, ast.Dict) and all(isinstance(k, ast.Constant) for k in v.keys):
                        lits[nm] = {k.value for k in v.keys}
                    elif isinstance(v, ast.Call) and isinstance(v.func, ast.Attribute) and v.func.attr == 'setdefault' \
                            and isinstance(v.func.value, ast.Name) and v.func.value.id in lits and len(v.args) == 2 \
                            and isinstance(v.args[0], ast.Constant) and not v.keywords \
                            and isinstance(v.args[1], (ast.Dict, ast.List)) and not (getattr(v.args[1], 'keys', None) or getattr(v.args[1], 'elts', None)) \
                            and v.args[0].value not in lits[v.func.value.id]:
                        d_ = v.func.value.id
                        k_ = v.args[0]
                        store = ast.Assign(targets=[ast.Subscript(value=ast.Name(id=d_, ctx=ast.Load()), slice=k_, ctx=ast.Store())],
                                           value=v.args[1], type_comment=None)
                        load = ast.Assign(targets=[st.targets[0]],
                                          value=ast.Subscript(value=ast.Name(id=d_, ctx=ast.Load()), slice=copy.deepcopy(k_), ctx=ast.Load()),
                                          type_comment=None)
                        for o in (store, load):
                            ast.copy_location(o, st)
                            ast.fix_missing_locations(o)
                        blk[i:i + 1] = [store, load]
                        lits[d_].add(k_.value)
                        count += 1
                        i += 2
                        continue
                    else:
                        lits.pop(nm, None)
                else:
                    # anything else that mentions a tracked dict other than plain subscript stores of constants: forget it
                    for nm in list(lits):
                        for x in ast.walk(st):
                            if isinstance(x, ast.Name) and x.id == nm:
                                par_ok = isinstance(st, ast.Assign) and isinstance(st.targets[0], ast.Subscript) \
                                    and isinstance(st.targets[0].value, ast.Name) and st.targets[0].value.id == nm \
                                    and isinstance(st.targets[0].slice, ast.Constant)
                                if par_ok:
                                    lits[nm].add(st.targets[0].slice.value)
                                elif isinstance(st, (ast.For, ast.While, ast.If, ast.Expr, ast.Return)) or not par_ok:
                                    # reads are harmless, writes through unknown keys are not: be conservative for calls
                                    if any(isinstance(y, ast.Call) and isinstance(y.func, ast.Attribute)
                                           and isinstance(y.func.value, ast.Name) and y.func.value.id == nm
                                           and y.func.attr in ('update', 'setdefault', 'pop', 'clear', 'popitem')
                                           for y in ast.walk(st)):
                                        lits.pop(nm, None)
                                break
                i += 1
    return count



# ---------------------------------------------------------------------------------------------- N17
def _append_loops(tree) -> int:
    """T = [] ; for v in C: [if c:] T.append(E)     ->     T = [E for v in C [if c]]      (T a name or an attribute;
    T occurs in the loop only as the receiver of that append)"""
    count = 0
    for parent in ast.walk(tree):
        for fld in ('body', 'orelse', 'finalbody'):
            blk = getattr(parent, fld, None)
            if not (isinstance(blk, list) and blk and isinstance(blk[0], ast.stmt)):
                continue
            i = 0
            while i + 1 < len(blk):
                a, lp = blk[i], blk[i + 1]
                ok = isinstance(a, ast.Assign) and len(a.targets) == 1 and isinstance(a.targets[0], (ast.Name, ast.Attribute)) \
                    and ((isinstance(a.value, ast.List) and not a.value.elts) or
                         (isinstance(a.value, ast.Call) and isinstance(a.value.func, ast.Name) and a.value.func.id == 'list'
                          and not a.value.args)) \
                    and isinstance(lp, ast.For) and not lp.orelse and len(lp.body) == 1
                if ok:
                    tdump = ast.dump(a.targets[0]).replace('Store()', 'Load()')
                    inner = lp.body[0]
                    cond = None
                    if isinstance(inner, ast.If) and not inner.orelse and len(inner.body) == 1:
                        cond, inner = inner.test, inner.body[0]
                    if isinstance(inner, ast.Expr) and isinstance(inner.value, ast.Call) and isinstance(inner.value.func, ast.Attribute) \
                            and inner.value.func.attr == 'append' and len(inner.value.args) == 1 and not inner.value.keywords \
                            and ast.dump(inner.value.func.value) == tdump:
                        elt = inner.value.args[0]
                        others = [lp.iter, elt] + ([cond] if cond is not None else [])
                        mentions = any(ast.dump(x) == tdump for o in others for x in ast.walk(o))
                        if not mentions and not any(isinstance(x, (ast.Yield, ast.Await, ast.NamedExpr)) for o in others for x in ast.walk(o)):
                            comp = ast.ListComp(elt=elt, generators=[ast.comprehension(
                                target=lp.target, iter=lp.iter, ifs=[cond] if cond is not None else [], is_async=0)])
                            new = ast.Assign(targets=[a.targets[0]], value=comp, type_comment=None)
                            ast.copy_location(new, a)
                            ast.copy_location(comp, lp)
                            ast.fix_missing_locations(new)
                            blk[i:i + 2] = [new]
                            count += 1
                            continue
                i += 1
    return count



# ---------------------------------------------------------------------------------------------- N29
def _loops_over_comprehensions(tree) -> int:
    """for TGT in [E(x) for x in ITER [if C(x)]]: BODY     ->     for x in ITER: [if C(x):] TGT = E(x); BODY
    (also when the comprehension was bound to a local used by this loop only, directly before it)"""
    count = 0
    for parent in ast.walk(tree):
        for fld in ('body', 'orelse', 'finalbody'):
            blk = getattr(parent, fld, None)
            if not (isinstance(blk, list) and blk and isinstance(blk[0], ast.stmt)):
                continue
            i = 0
            while i < len(blk):
                st = blk[i]
                if isinstance(st, ast.For) and not st.orelse:
                    comp = st.iter if isinstance(st.iter, (ast.ListComp, ast.GeneratorExp)) else None
                    drop_prev = False
                    if comp is None and isinstance(st.iter, ast.Name) and i > 0 and isinstance(blk[i - 1], ast.Assign) \
                            and len(blk[i - 1].targets) == 1 and isinstance(blk[i - 1].targets[0], ast.Name) \
                            and blk[i - 1].targets[0].id == st.iter.id and isinstance(blk[i - 1].value, (ast.ListComp, ast.GeneratorExp)):
                        fn_nodes = [x for x in ast.walk(tree) if isinstance(x, ast.Name) and x.id == st.iter.id]
                        if len(fn_nodes) == 2:
                            comp, drop_prev = blk[i - 1].value, True
                    if comp is not None and len(comp.generators) == 1 and not comp.generators[0].is_async \
                            and isinstance(comp.generators[0].target, ast.Name) \
                            and not any(isinstance(x, (ast.NamedExpr, ast.Lambda, ast.Yield, ast.Await)) for x in ast.walk(comp)) \
                            and not any(isinstance(x, (ast.Break, ast.Continue)) for b in st.body for x in ast.walk(b)):
                        g = comp.generators[0]
                        if isinstance(comp, ast.ListComp):
                            # a list comprehension is built BEFORE the loop runs: a snapshot of ITER (the body may shrink
                            # ITER, `for a, n in [(a, n) for n in a.reached]: a.undo(n)`), with E evaluated up front -
                            # kept as a snapshot, and only for element expressions that merely navigate
                            if any(isinstance(x, ast.Call) and not (isinstance(x.func, ast.Name) and x.func.id == 'getattr')
                                   for x in ast.walk(comp.elt)) or g.ifs:
                                i += 1
                                continue
                            g = ast.comprehension(target=g.target, iter=ast.Call(func=ast.Name(id='list', ctx=ast.Load()),
                                                                                  args=[g.iter], keywords=[]), ifs=[], is_async=0)
                        bind = ast.Assign(targets=[st.target], value=comp.elt, type_comment=None)
                        inner = [bind] + st.body
                        if g.ifs:
                            tst = g.ifs[0] if len(g.ifs) == 1 else ast.BoolOp(op=ast.And(), values=list(g.ifs))
                            inner = [ast.If(test=tst, body=inner, orelse=[])]
                        new = ast.For(target=ast.Name(id=g.target.id, ctx=ast.Store()), iter=g.iter, body=inner, orelse=[],
                                      type_comment=None)
                        ast.copy_location(new, st)
                        ast.fix_missing_locations(new)
                        if drop_prev:
                            blk[i - 1:i + 1] = [new]
                            i -= 1
                        else:
                            blk[i] = new
                        count += 1
                        continue
                i += 1
    return count


# ---------------------------------------------------------------------------------------------- N27
def _filtered_literal_lists(tree) -> int:
    """L = [t for t in (A, B) if C(t)]  used only as `if not L` / `if L` tests and `for v in L:` loops
         ->   tests become  C(A) or C(B),  loops become  `for v in (A, B): if C(v): BODY`
    (the selection is re-made where it is used; accepted only when the loop body changes nothing C reads except
    through the loop variable itself, so an element's test is not affected by an earlier element's body)"""
    count = 0
    for fn in ast.walk(tree):
        if not isinstance(fn, (ast.FunctionDef, ast.AsyncFunctionDef)):
            continue
        for i, st in enumerate(list(fn.body)):
            if not (isinstance(st, ast.Assign) and len(st.targets) == 1 and isinstance(st.targets[0], ast.Name)
                    and isinstance(st.value, ast.ListComp) and len(st.value.generators) == 1):
                continue
            g = st.value.generators[0]
            L = st.targets[0].id
            if not (isinstance(g.target, ast.Name) and isinstance(st.value.elt, ast.Name) and st.value.elt.id == g.target.id
                    and isinstance(g.iter, (ast.Tuple, ast.List)) and 0 < len(g.iter.elts) <= MAX_ELTS and len(g.ifs) == 1
                    and all(_simple(e) or (isinstance(e, ast.Call) and isinstance(e.func, ast.Name) and e.func.id == 'getattr')
                            for e in g.iter.elts)):
                continue
            stores = sum(1 for x in ast.walk(fn) if isinstance(x, ast.Name) and x.id == L and isinstance(x.ctx, (ast.Store, ast.Del)))
            if stores != 1:
                continue
            uses = [x for x in ast.walk(fn) if isinstance(x, ast.Name) and x.id == L and isinstance(x.ctx, ast.Load)]
            parent = {}
            for x in ast.walk(fn):
                for ch in ast.iter_child_nodes(x):
                    parent[id(ch)] = x
            ok = True
            plan = []
            cond_names = {x.id for x in ast.walk(g.ifs[0]) if isinstance(x, ast.Name)} - {g.target.id}
            for u in uses:
                p_ = parent.get(id(u))
                if isinstance(p_, ast.UnaryOp) and isinstance(p_.op, ast.Not) and isinstance(parent.get(id(p_)), ast.If) \
                        and parent[id(p_)].test is p_:
                    plan.append(('not', p_, parent[id(p_)]))
                elif isinstance(p_, ast.If) and p_.test is u:
                    plan.append(('truth', u, p_))
                elif isinstance(p_, ast.For) and p_.iter is u and isinstance(p_.target, ast.Name) and not p_.orelse:
                    written = {x.id for b in p_.body for x in ast.walk(b) if isinstance(x, ast.Name)
                               and isinstance(x.ctx, (ast.Store, ast.Del))}
                    if written & cond_names:
                        ok = False
                    plan.append(('for', p_, None))
                else:
                    ok = False
            if not ok or not plan:
                continue

            def cond_for(e):
                return _Subst({g.target.id: e}).visit(copy.deepcopy(g.ifs[0]))
            anyc = ast.BoolOp(op=ast.Or(), values=[cond_for(copy.deepcopy(e)) for e in g.iter.elts]) if len(g.iter.elts) > 1 \
                else cond_for(copy.deepcopy(g.iter.elts[0]))
            for kind, node_, owner in plan:
                if kind == 'not':
                    owner.test = ast.UnaryOp(op=ast.Not(), operand=copy.deepcopy(anyc))
                elif kind == 'truth':
                    owner.test = copy.deepcopy(anyc)
                else:
                    v = node_.target.id
                    node_.iter = copy.deepcopy(g.iter)
                    node_.body = [ast.If(test=cond_for(ast.Name(id=v, ctx=ast.Load())), body=node_.body, orelse=[])]
            fn.body.remove(st)
            ast.fix_missing_locations(fn)
            count += 1
    return count


# ---------------------------------------------------------------------------------------------- N23
def _next_loops(tree) -> int:
    """x = next(IT, None) ; while x: BODY ; x = next(IT, None)     ->     for x in IT: BODY
    (the iterator idiom of the repository: elements are records / objects, never falsy; no break / continue in BODY)"""
    count = 0

    def is_next(st):
        return isinstance(st, ast.Assign) and len(st.targets) == 1 and isinstance(st.targets[0], ast.Name) \
            and isinstance(st.value, ast.Call) and isinstance(st.value.func, ast.Name) \
            and st.value.func.id == 'next' and len(st.value.args) == 2 \
            and isinstance(st.value.args[1], ast.Constant) and st.value.args[1].value is None
    for parent in ast.walk(tree):
        for fld in ('body', 'orelse', 'finalbody'):
            blk = getattr(parent, fld, None)
            if not (isinstance(blk, list) and blk and isinstance(blk[0], ast.stmt)):
                continue
            i = 0
            while i + 1 < len(blk):
                a, w = blk[i], blk[i + 1]
                if is_next(a) and isinstance(w, ast.While) and not w.orelse and w.body and is_next(w.body[-1]):
                    x = a.targets[0].id
                    if isinstance(w.test, ast.Name) and w.test.id == x and w.body[-1].targets[0].id == x \
                            and ast.dump(w.body[-1].value.args[0]) == ast.dump(a.value.args[0]) \
                            and not any(isinstance(n, (ast.Break, ast.Continue)) for s_ in w.body for n in ast.walk(s_)):
                        it = a.value.args[0]
                        # the iterator is a local bound once to a generator expression right before: iterate that
                        if isinstance(it, ast.Name) and i > 0 and isinstance(blk[i - 1], ast.Assign) \
                                and len(blk[i - 1].targets) == 1 and isinstance(blk[i - 1].targets[0], ast.Name) \
                                and blk[i - 1].targets[0].id == it.id and isinstance(blk[i - 1].value, ast.GeneratorExp) \
                                and sum(1 for n in ast.walk(parent) if isinstance(n, ast.Name) and n.id == it.id) == 3:
                            g = blk[i - 1].value
                            if len(g.generators) == 1 and isinstance(g.elt, ast.Name) and isinstance(g.generators[0].target, ast.Name) \
                                    and g.elt.id == g.generators[0].target.id and not g.generators[0].is_async:
                                # for x in (v for v in C if cond): BODY  ->  for v in C: if cond: BODY   (x renamed to v)
                                v = g.generators[0].target.id
                                body = w.body[:-1] or [ast.Pass()]
                                if x != v:
                                    body = [_Subst({x: ast.Name(id=v, ctx=ast.Load())}).visit(copy.deepcopy(s_)) for s_ in body]
                                if g.generators[0].ifs:
                                    tst = g.generators[0].ifs[0] if len(g.generators[0].ifs) == 1 else \
                                        ast.BoolOp(op=ast.And(), values=list(g.generators[0].ifs))
                                    body = [ast.If(test=tst, body=body, orelse=[])]
                                new = ast.For(target=ast.Name(id=v, ctx=ast.Store()), iter=g.generators[0].iter, body=body,
                                              orelse=[], type_comment=None)
                                ast.copy_location(new, w)
                                ast.fix_missing_locations(new)
                                blk[i - 1:i + 2] = [new]
                                count += 1
                                i = max(i - 1, 0)
                                continue
                        new = ast.For(target=ast.Name(id=x, ctx=ast.Store()), iter=it, body=w.body[:-1] or [ast.Pass()],
                                      orelse=[], type_comment=None)
                        ast.copy_location(new, w)
                        ast.fix_missing_locations(new)
                        blk[i:i + 2] = [new]
                        count += 1
                        continue
                i += 1
    return count


# ---------------------------------------------------------------------------------------------- N22
def _local_list_values(tree) -> int:
    """A list created empty in the function, only ever appended to / extended OUTSIDE loops (or by the plain loop
    `for v in C: [if c:] T.append(E)`) and finally returned is a value, not an object anyone else sees:
        T.append(x) -> T = T + [x]      T.extend(X) -> T = T + list(X)      the loop -> T = T + [E for v in C if c]
    so that the accumulator spelling and the expression spelling (`return inherited + own`) meet."""
    count = 0
    for fn in ast.walk(tree):
        if not isinstance(fn, (ast.FunctionDef, ast.AsyncFunctionDef)):
            continue
        if any(isinstance(x, (ast.FunctionDef, ast.AsyncFunctionDef, ast.Lambda, ast.Yield, ast.YieldFrom))
               for st in fn.body for x in ast.walk(st)):
            continue
        cands = {}
        for st in fn.body:
            tg, val = None, None
            if isinstance(st, ast.Assign) and len(st.targets) == 1 and isinstance(st.targets[0], ast.Name):
                tg, val = st.targets[0].id, st.value
            elif isinstance(st, ast.AnnAssign) and isinstance(st.target, ast.Name) and st.value is not None:
                tg, val = st.target.id, st.value
            if tg and ((isinstance(val, ast.List) and not val.elts) or
                       (isinstance(val, ast.Call) and isinstance(val.func, ast.Name) and val.func.id == 'list' and not val.args)):
                cands[tg] = st
        for T, init in list(cands.items()):
            sites = []          # (block list, index, kind, payload)
            ok = True
            allowed_ids = {id(init)}

            def simple_loop(lp):
                if not (isinstance(lp, ast.For) and not lp.orelse and len(lp.body) == 1):
                    return None
                inner, cond = lp.body[0], None
                if isinstance(inner, ast.If) and not inner.orelse and len(inner.body) == 1:
                    cond, inner = inner.test, inner.body[0]
                if isinstance(inner, ast.Expr) and isinstance(inner.value, ast.Call) and isinstance(inner.value.func, ast.Attribute) \
                        and inner.value.func.attr == 'append' and len(inner.value.args) == 1 and not inner.value.keywords \
                        and isinstance(inner.value.func.value, ast.Name) and inner.value.func.value.id == T:
                    elt = inner.value.args[0]
                    others = [lp.iter, elt, lp.target] + ([cond] if cond is not None else [])
                    if any(isinstance(x, ast.Name) and x.id == T for o in others for x in ast.walk(o)):
                        return None
                    if any(isinstance(x, (ast.Await, ast.NamedExpr)) for o in others for x in ast.walk(o)):
                        return None
                    return (elt, cond)
                return None

            def scan(blk):
                nonlocal ok
                for i, st in enumerate(blk):
                    if st is init:
                        continue
                    mentions = any(isinstance(x, ast.Name) and x.id == T for x in ast.walk(st))
                    if not mentions:
                        continue
                    if isinstance(st, ast.Expr) and isinstance(st.value, ast.Call) and isinstance(st.value.func, ast.Attribute) \
                            and isinstance(st.value.func.value, ast.Name) and st.value.func.value.id == T \
                            and st.value.func.attr in ('append', 'extend') and len(st.value.args) == 1 and not st.value.keywords \
                            and not any(isinstance(x, ast.Name) and x.id == T for x in ast.walk(st.value.args[0])):
                        sites.append((blk, i, st.value.func.attr, st.value.args[0]))
                    elif isinstance(st, ast.Return) and isinstance(st.value, ast.Name) and st.value.id == T:
                        pass
                    elif isinstance(st, ast.If) and not any(isinstance(x, ast.Name) and x.id == T for x in ast.walk(st.test)):
                        scan(st.body)
                        scan(st.orelse)
                    elif simple_loop(st) is not None:
                        sites.append((blk, i, 'loop', st))
                    else:
                        ok = False
            scan(fn.body)
            if not ok or not sites:
                continue

            def cat(rhs, at):
                new = ast.Assign(targets=[ast.Name(id=T, ctx=ast.Store())],
                                 value=ast.BinOp(left=ast.Name(id=T, ctx=ast.Load()), op=ast.Add(), right=rhs),
                                 type_comment=None)
                return ast.fix_missing_locations(ast.copy_location(new, at))
            for (blk, i, kind, payload) in sites:
                at = blk[i]
                if kind == 'append':
                    blk[i] = cat(ast.List(elts=[payload], ctx=ast.Load()), at)
                elif kind == 'extend':
                    blk[i] = cat(ast.Call(func=ast.Name(id='list', ctx=ast.Load()), args=[payload], keywords=[]), at)
                else:
                    elt, cond = simple_loop(payload)
                    comp = ast.ListComp(elt=elt, generators=[ast.comprehension(
                        target=payload.target, iter=payload.iter, ifs=[cond] if cond is not None else [], is_async=0)])
                    blk[i] = cat(comp, at)
                count += 1
    return count


# ---------------------------------------------------------------------------------------------- N18
def _unfold_partials(tree) -> int:
    """f = functools.partial(g, a, b=c)  (f bound once in the function, a / c plain names or constants that are not
    re-assigned)   ->   every call f(x, y) becomes g(a, x, y, b=c); the binding goes when nothing else uses f"""
    count = 0
    for fn in ast.walk(tree):
        if not isinstance(fn, (ast.FunctionDef, ast.AsyncFunctionDef)):
            continue
        stores = {}
        for n in ast.walk(fn):
            if isinstance(n, ast.Name) and isinstance(n.ctx, (ast.Store, ast.Del)):
                stores[n.id] = stores.get(n.id, 0) + 1
        for blk_owner in ast.walk(fn):
            for fld in ('body', 'orelse', 'finalbody'):
                blk = getattr(blk_owner, fld, None)
                if not (isinstance(blk, list) and blk and isinstance(blk[0], ast.stmt)):
                    continue
                for st in list(blk):
                    if not (isinstance(st, ast.Assign) and len(st.targets) == 1 and isinstance(st.targets[0], ast.Name)
                            and isinstance(st.value, ast.Call) and st.value.args):
                        continue
                    c = st.value
                    is_partial = (isinstance(c.func, ast.Name) and c.func.id == 'partial') or (
                        isinstance(c.func, ast.Attribute) and c.func.attr == 'partial'
                        and isinstance(c.func.value, ast.Name) and c.func.value.id == 'functools')
                    nm = st.targets[0].id
                    if not is_partial or stores.get(nm) != 1:
                        continue
                    bound = c.args[1:] + [k.value for k in c.keywords]
                    if not all(isinstance(a, (ast.Name, ast.Constant)) or (isinstance(a, ast.Attribute) and isinstance(a.value, ast.Name))
                               for a in bound):
                        continue
                    if any(isinstance(a, ast.Name) and stores.get(a.id, 0) > 1 for a in bound):
                        continue
                    target_fn = c.args[0]
                    uses = [n for n in ast.walk(fn) if isinstance(n, ast.Name) and n.id == nm and isinstance(n.ctx, ast.Load)]
                    calls = [n for n in ast.walk(fn) if isinstance(n, ast.Call) and isinstance(n.func, ast.Name) and n.func.id == nm]
                    for call in calls:
                        call.func = copy.deepcopy(target_fn)
                        call.args = [copy.deepcopy(a) for a in c.args[1:]] + call.args
                        call.keywords = [copy.deepcopy(k) for k in c.keywords] + call.keywords
                        count += 1
                    if len(calls) == len(uses):
                        blk.remove(st)
                        if not blk:
                            blk.append(ast.copy_location(ast.Pass(), st))
    return count



def _fold_literal_zip(tree) -> int:
    """N20: `zip((a, b), (c, d))` over literal tuples / lists of simple elements is the table `((a, c), (b, d))`
    (iterated once, in a `for` or through a single-store local that a `for` walks)."""
    count = 0

    class Z(ast.NodeTransformer):
        def visit_Call(self, node):
            nonlocal count
            self.generic_visit(node)
            if isinstance(node.func, ast.Name) and node.func.id == 'zip' and len(node.args) >= 2 and not node.keywords \
                    and all(isinstance(a, (ast.Tuple, ast.List)) and 0 < len(a.elts) <= MAX_ELTS
                            and all(_simple(e) for e in a.elts) for a in node.args):
                n = min(len(a.elts) for a in node.args)
                rows = [ast.Tuple(elts=[copy.deepcopy(a.elts[i]) for a in node.args], ctx=ast.Load()) for i in range(n)]
                count += 1
                return ast.fix_missing_locations(ast.copy_location(ast.Tuple(elts=rows, ctx=ast.Load()), node))
            return node
    Z().visit(tree)
    return count


def normalize(tree: ast.Module, inline: bool = True) -> ast.Module:
    ninl = 0
    if inline:
        from .inline import inline_helpers
        ninl = inline_helpers(tree)
    ninl += _filtered_literal_lists(tree)
    ninl += _loops_over_comprehensions(tree)
    nfold = _fold_named_constants(tree)
    nfold += _unfold_partials(tree)
    nfold += _fold_literal_zip(tree)
    n = Normalizer()
    tree = n.visit(tree)
    n.count += nfold
    if inline and n.count:
        # unrolling a rule table can expose calls of helpers that were only function values before
        # (`convert(x)` -> `_is_true(x)`): un-extract those too, then tidy up once more
        ninl2 = inline_helpers(tree)
        if ninl2:
            n2 = Normalizer()
            tree = n2.visit(tree)
            n.count += ninl2 + n2.count
    n.count += ninl
    n.count += _search_loops(tree)
    n.count += _raise_split_and_unpeel(tree)
    n.count += _setdefault_on_fresh_dict(tree)
    n.count += _next_loops(tree)
    n.count += _append_loops(tree)
    n.count += _local_list_values(tree)
    cp = _CopyProp()
    for f in [x for x in ast.walk(tree) if isinstance(x, (ast.FunctionDef, ast.AsyncFunctionDef))]:
        for _ in range(3):
            before = cp.count
            cp.run(f)
            if cp.count == before:
                break
    n.count += cp.count
    if cp.count:
        # a search loop whose test went through a single-use local (`a = cand[0]; if a == x: return cand`) is in the
        # recognised form only now
        n.count += _search_loops(tree)
    if cp.count:
        # constants of unrolled tables have reached their uses: fold the tests they decide
        n3 = Normalizer()
        tree = n3.visit(tree)
        n.count += n3.count
    ast.fix_missing_locations(tree)
    tree._malsa_rewrites = n.count
    return tree
