"""E4: statement-level control-flow graph, dominators, post-dominators, reaching definitions.

No implicit exceptional edges except inside ``try`` bodies (every statement of a try body may
transfer to every handler).  ``raise`` goes to the RAISE exit (and to enclosing handlers).
``assert`` is an ordinary statement.
"""
from __future__ import annotations

import ast
from typing import Optional


class CNode:
    __slots__ = ('idx', 'kind', 'ast', 'succ', 'pred', 'loop', 'label')

    def __init__(self, idx, kind, node):
        self.idx = idx
        self.kind = kind      # entry exit raise stmt if for while match case with try handler
        self.ast = node
        self.succ: list[tuple['CNode', str]] = []
        self.pred: list['CNode'] = []
        self.loop: Optional['CNode'] = None    # innermost enclosing loop header
        self.label = ''

    @property
    def lineno(self):
        return getattr(self.ast, 'lineno', 0)

    def __repr__(self):
        return f'<{self.kind}#{self.idx}@{self.lineno}>'


class CFG:
    def __init__(self, fnode: ast.FunctionDef):
        self.fnode = fnode
        self.nodes: list[CNode] = []
        self.entry = self._new('entry', fnode)
        self.exit = self._new('exit', fnode)
        self.raise_exit = self._new('raise', fnode)
        self.by_ast: dict[int, CNode] = {}
        self._loops: list[tuple[CNode, list, ]] = []
        self._handlers: list[list[CNode]] = []
        self._cur_loop: Optional[CNode] = None
        outs = self._block(fnode.body, [(self.entry, '')])
        for n, lab in outs:
            self._edge(n, self.exit, lab)
        self._owner: dict[int, CNode] = {}
        self._index_exprs()
        self._dom = None
        self._pdom = None
        self._rd_in = None

    # ------------------------------------------------------------ construction
    def _new(self, kind, node) -> CNode:
        n = CNode(len(self.nodes), kind, node)
        self.nodes.append(n)
        return n

    def _edge(self, a: CNode, b: CNode, label=''):
        for t, l in a.succ:
            if t is b and l == label:
                return
        a.succ.append((b, label))
        if a not in b.pred:
            b.pred.append(a)

    def _mk(self, kind, node, ins) -> CNode:
        n = self._new(kind, node)
        n.loop = self._cur_loop
        self.by_ast[id(node)] = n
        for p, lab in ins:
            self._edge(p, n, lab)
        # inside try bodies: any statement may raise into the handlers
        for hs in self._handlers:
            for h in hs:
                self._edge(n, h, 'exc')
        return n

    def _block(self, body, ins):
        """ins: list of (node, label) dangling edges; returns dangling edges after the block."""
        cur = ins
        for st in body:
            cur = self._stmt(st, cur)
        return cur

    def _stmt(self, st, ins):
        if isinstance(st, (ast.FunctionDef, ast.AsyncFunctionDef, ast.ClassDef)):
            n = self._mk('stmt', st, ins)
            return [(n, '')]
        if isinstance(st, ast.If):
            h = self._mk('if', st, ins)
            t_out = self._block(st.body, [(h, 'T')])
            if st.orelse:
                f_out = self._block(st.orelse, [(h, 'F')])
            else:
                f_out = [(h, 'F')]
            return t_out + f_out
        if isinstance(st, (ast.For, ast.AsyncFor, ast.While)):
            kind = 'while' if isinstance(st, ast.While) else 'for'
            h = self._mk(kind, st, ins)
            breaks: list = []
            self._loops.append((h, breaks))
            saved = self._cur_loop
            self._cur_loop = h
            b_out = self._block(st.body, [(h, 'T')])
            self._cur_loop = saved
            self._loops.pop()
            for n, lab in b_out:
                self._edge(n, h, lab)
            infinite = (kind == 'while' and isinstance(st.test, ast.Constant) and st.test.value is True)
            outs = [] if infinite else [(h, 'F')]
            if st.orelse:
                outs = self._block(st.orelse, outs)
            return outs + breaks
        if isinstance(st, ast.Break):
            n = self._mk('stmt', st, ins)
            if self._loops:
                self._loops[-1][1].append((n, ''))
            return []
        if isinstance(st, ast.Continue):
            n = self._mk('stmt', st, ins)
            if self._loops:
                self._edge(n, self._loops[-1][0], '')
            return []
        if isinstance(st, ast.Return):
            n = self._mk('stmt', st, ins)
            self._edge(n, self.exit, '')
            return []
        if isinstance(st, ast.Raise):
            n = self._mk('stmt', st, ins)
            self._edge(n, self.raise_exit, '')
            return []
        if isinstance(st, ast.Match):
            h = self._mk('match', st, ins)
            outs = []
            nomatch = [(h, '')]
            for case in st.cases:
                c = self._mk('case', case, nomatch)
                outs += self._block(case.body, [(c, 'T')])
                irrefutable = (case.guard is None and isinstance(case.pattern, ast.MatchAs)
                               and case.pattern.pattern is None)
                nomatch = [] if irrefutable else [(c, 'F')]
            return outs + nomatch
        if isinstance(st, (ast.With, ast.AsyncWith)):
            h = self._mk('with', st, ins)
            return self._block(st.body, [(h, '')])
        if isinstance(st, ast.Try) or st.__class__.__name__ == 'TryStar':
            h = self._mk('try', st, ins)
            hnodes = []
            for hd in st.handlers:
                hn = self._new('handler', hd)
                hn.loop = self._cur_loop
                self.by_ast[id(hd)] = hn
                hnodes.append(hn)
            for hn in hnodes:
                self._edge(h, hn, 'exc')
            self._handlers.append(hnodes)
            b_out = self._block(st.body, [(h, '')])
            self._handlers.pop()
            if st.orelse:
                b_out = self._block(st.orelse, b_out)
            outs = list(b_out)
            for hn, hd in zip(hnodes, st.handlers):
                outs += self._block(hd.body, [(hn, '')])
            if st.finalbody:
                outs = self._block(st.finalbody, outs)
            return outs
        n = self._mk('stmt', st, ins)
        return [(n, '')]

    def _index_exprs(self):
        """Map every expression node to the CFG node that evaluates it."""
        for n in self.nodes:
            a = n.ast
            if n.kind in ('entry', 'exit', 'raise'):
                continue
            if n.kind == 'if' or n.kind == 'while':
                roots = [a.test]
            elif n.kind == 'for':
                roots = [a.iter, a.target]
            elif n.kind == 'match':
                roots = [a.subject]
            elif n.kind == 'case':
                roots = [a.pattern] + ([a.guard] if a.guard is not None else [])
            elif n.kind == 'with':
                roots = [x for it in a.items for x in (it.context_expr, it.optional_vars) if x is not None]
            elif n.kind == 'try':
                roots = []
            elif n.kind == 'handler':
                roots = [a.type] if a.type is not None else []
            elif isinstance(a, (ast.FunctionDef, ast.AsyncFunctionDef, ast.ClassDef)):
                roots = []
            else:
                roots = [a]
            for r in roots:
                for sub in ast.walk(r):
                    self._owner[id(sub)] = n

    def owner(self, expr) -> Optional[CNode]:
        return self._owner.get(id(expr))

    def node_of(self, stmt) -> Optional[CNode]:
        return self.by_ast.get(id(stmt))

    # ------------------------------------------------------------ dominance
    def _compute_dom(self, start: CNode, forward: bool, allowed=None):
        nodes = self.nodes
        N = len(nodes)
        full = (1 << N) - 1
        dom = [full] * N
        dom[start.idx] = 1 << start.idx
        changed = True
        # reachable set
        reach = set()
        st = [start]
        while st:
            x = st.pop()
            if x.idx in reach:
                continue
            reach.add(x.idx)
            nxt = [t for t, _ in x.succ] if forward else x.pred
            st.extend(nxt)
        order = [n for n in nodes if n.idx in reach]
        while changed:
            changed = False
            for n in order:
                if n is start:
                    continue
                preds = n.pred if forward else [t for t, _ in n.succ]
                preds = [p for p in preds if p.idx in reach]
                new = full
                for p in preds:
                    new &= dom[p.idx]
                new |= 1 << n.idx
                if new != dom[n.idx]:
                    dom[n.idx] = new
                    changed = True
        return dom, reach

    def dominates(self, a: CNode, b: CNode) -> bool:
        """a dominates b (every path entry->b passes through a)."""
        if self._dom is None:
            self._dom = self._compute_dom(self.entry, True)
        dom, reach = self._dom
        if b.idx not in reach:
            return True
        return bool(dom[b.idx] >> a.idx & 1)

    def postdominates(self, a: CNode, b: CNode) -> bool:
        """a post-dominates b w.r.t. the NORMAL exit: every path b->exit passes through a.
        (paths ending in raise are not constrained)."""
        if self._pdom is None:
            self._pdom = self._compute_dom(self.exit, False)
        dom, reach = self._pdom
        if b.idx not in reach:
            return True      # b never returns normally
        return bool(dom[b.idx] >> a.idx & 1)

    def reaches_exit(self, n: CNode) -> bool:
        if self._pdom is None:
            self._pdom = self._compute_dom(self.exit, False)
        return n.idx in self._pdom[1]

    def reachable_from(self, a: CNode, avoiding: set = frozenset()) -> set:
        """indices of nodes reachable from a (exclusive of a unless on a cycle), not passing
        through nodes in `avoiding`."""
        seen = set()
        st = [t for t, _ in a.succ]
        while st:
            x = st.pop()
            if x.idx in seen or x.idx in avoiding:
                continue
            seen.add(x.idx)
            st.extend(t for t, _ in x.succ)
        return seen

    # ------------------------------------------------------------ reaching definitions
    @staticmethod
    def _targets(t, out):
        if isinstance(t, ast.Name):
            out.append(t.id)
        elif isinstance(t, (ast.Tuple, ast.List)):
            for e in t.elts:
                CFG._targets(e, out)
        elif isinstance(t, ast.Starred):
            CFG._targets(t.value, out)

    def defs_of(self, n: CNode) -> list[str]:
        """local names (re)bound by CFG node n."""
        a = n.ast
        out: list[str] = []
        if n.kind == 'entry':
            args = a.args
            for x in args.posonlyargs + args.args + args.kwonlyargs:
                out.append(x.arg)
            if args.vararg:
                out.append(args.vararg.arg)
            if args.kwarg:
                out.append(args.kwarg.arg)
            return out
        if n.kind in ('exit', 'raise', 'try'):
            return out
        if n.kind == 'for':
            self._targets(a.target, out)
            self._walrus(a.iter, out)
            return out
        if n.kind in ('if', 'while'):
            self._walrus(a.test, out)
            return out
        if n.kind == 'match':
            self._walrus(a.subject, out)
            return out
        if n.kind == 'case':
            for sub in ast.walk(a.pattern):
                if isinstance(sub, ast.MatchAs) and sub.name:
                    out.append(sub.name)
                elif isinstance(sub, ast.MatchStar) and sub.name:
                    out.append(sub.name)
                elif isinstance(sub, ast.MatchMapping) and sub.rest:
                    out.append(sub.rest)
            return out
        if n.kind == 'with':
            for it in a.items:
                if it.optional_vars is not None:
                    self._targets(it.optional_vars, out)
            return out
        if n.kind == 'handler':
            if a.name:
                out.append(a.name)
            return out
        if isinstance(a, ast.Assign):
            for t in a.targets:
                self._targets(t, out)
            self._walrus(a.value, out)
        elif isinstance(a, ast.AnnAssign):
            if a.value is not None:
                self._targets(a.target, out)
        elif isinstance(a, ast.AugAssign):
            self._targets(a.target, out)
        elif isinstance(a, (ast.Import, ast.ImportFrom)):
            for al in a.names:
                out.append((al.asname or al.name).split('.')[0])
        elif isinstance(a, (ast.FunctionDef, ast.AsyncFunctionDef, ast.ClassDef)):
            out.append(a.name)
        elif isinstance(a, ast.Delete):
            for t in a.targets:
                self._targets(t, out)
        else:
            self._walrus(a, out)
        return out

    @staticmethod
    def _walrus(e, out):
        for sub in ast.walk(e):
            if isinstance(sub, ast.NamedExpr) and isinstance(sub.target, ast.Name):
                out.append(sub.target.id)

    def _compute_rd(self):
        nodes = self.nodes
        gen: list[dict[str, int]] = []
        for n in nodes:
            gen.append({v: n.idx for v in self.defs_of(n)})
        IN: list[dict[str, frozenset]] = [dict() for _ in nodes]
        OUT: list[dict[str, frozenset]] = [dict() for _ in nodes]
        work = [self.entry]
        OUT[self.entry.idx] = {v: frozenset([self.entry.idx]) for v in gen[self.entry.idx]}
        inq = set()
        work = list(nodes)
        while work:
            n = work.pop(0)
            if n is not self.entry:
                new_in: dict[str, set] = {}
                for p in n.pred:
                    for v, ds in OUT[p.idx].items():
                        new_in.setdefault(v, set()).update(ds)
                new_in_f = {v: frozenset(ds) for v, ds in new_in.items()}
                IN[n.idx] = new_in_f
                out = dict(new_in_f)
                for v, d in gen[n.idx].items():
                    out[v] = frozenset([d])
            else:
                out = OUT[self.entry.idx]
            if out != OUT[n.idx] or n is self.entry and not inq:
                OUT[n.idx] = out
                inq.add(n.idx)
                for t, _ in n.succ:
                    if t not in work:
                        work.append(t)
        self._rd_in = IN
        self._rd_out = OUT

    def reaching(self, n: CNode, var: str) -> list[CNode]:
        """definitions of `var` that reach the *entry* of CFG node n."""
        if self._rd_in is None:
            self._compute_rd()
        return [self.nodes[i] for i in sorted(self._rd_in[n.idx].get(var, ()))]

    def reaching_out(self, n: CNode, var: str) -> list[CNode]:
        if self._rd_in is None:
            self._compute_rd()
        return [self.nodes[i] for i in sorted(self._rd_out[n.idx].get(var, ()))]


_cache: dict[int, CFG] = {}


def cfg_of(func) -> CFG:
    """func: core.Func"""
    c = _cache.get(id(func.node))
    if c is None:
        c = CFG(func.node)
        _cache[id(func.node)] = c
    return c


def in_loop(n: CNode, header: Optional[CNode]) -> bool:
    if header is None:
        return True
    l = n.loop
    while l is not None:
        if l is header:
            return True
        l = l.loop
    return False


def covered(cfg: CFG, p: CNode, dnodes) -> bool:
    """True iff every normally-continuing path through p - within one iteration of p's innermost
    loop, or within the function when p is in no loop - also passes through one of `dnodes`
    that sits in the same innermost loop as p (same execution count as p)."""
    D = {d.idx for d in dnodes if d.loop is p.loop}
    if p.idx in D:
        return True
    header = p.loop
    start = header if header is not None else cfg.entry

    def is_end(x: CNode) -> bool:
        if x is cfg.raise_exit:
            return False
        if header is None:
            return x is cfg.exit
        return x is header or not in_loop(x, header)

    # pre: start -> p avoiding D
    seen = set()
    st = [t for t, lab in start.succ if header is None or (in_loop(t, header) and lab == 'T')]
    pre = False
    while st:
        x = st.pop()
        if x is p:
            pre = True
            break
        if x.idx in seen or x.idx in D or not in_loop(x, header) or x is header:
            continue
        seen.add(x.idx)
        st.extend(t for t, _ in x.succ)
    if not pre:
        return True
    # post: p -> end avoiding D.  Leaving p through its own exception edge means p's statement did not complete (a
    # `xs.remove(a)` that raises has removed nothing): that is not a path on which p's effect happened
    seen = set()
    st = [t for t, lab in p.succ if lab != 'exc']
    while st:
        x = st.pop()
        if is_end(x):
            return False
        if x.idx in seen or x.idx in D or x is cfg.raise_exit:
            continue
        seen.add(x.idx)
        st.extend(t for t, _ in x.succ)
    return True
