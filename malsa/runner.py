"""Runs the rule instances that decide the structural clauses of one property."""
from __future__ import annotations

import json
import os
import sys
import time

from .core import AnalysisError
from .report import (Inst, known_keys_for, write_evidence, write_replay, load_known,
                     EVIDENCE_DIR)


def run_rules(ctx, rule_names):
    from . import registry
    out = {}
    for rn in rule_names:
        if rn in ctx._rule_cache:
            out[rn] = ctx._rule_cache[rn]
            continue
        mod = registry.rule_module(rn)
        insts = mod.run(ctx)
        _opacity_downgrade(ctx, rn, insts)
        ctx._rule_cache[rn] = insts
        out[rn] = insts
    return out


# rules whose violations state that an expected write is ABSENT ("never given a value", "not mirrored",
# "index not updated"): when the function - or a package function it reaches - writes attributes under names
# computed at run time, the absence cannot be established from the source
ABSENCE_RULES = {'R2', 'R3', 'R7'}


def _dynamic_writes(ctx, f):
    """setattr(obj, <non-constant name>, v) on a package object (not a pjs asset) reachable from f."""
    import ast
    from .core import own_nodes, PJS
    cache = ctx.__dict__.setdefault('_dynw', {})
    if f.qname in cache:
        return cache[f.qname]
    out = []
    for g in ctx.an.reachable([f]).values():
        env = ctx.prog.env(g)
        for n in own_nodes(g.node):
            if isinstance(n, ast.Call) and isinstance(n.func, ast.Name) and n.func.id == 'setattr' and len(n.args) == 3 \
                    and not isinstance(n.args[1], ast.Constant):
                try:
                    t = env.type_of(n.args[0])
                except Exception:
                    t = ('unk',)
                if t != PJS:
                    out.append((g, n))
            # fields reached through operator.attrgetter / methodcaller (`map(attrgetter('parents'), ..)`): the access-path
            # analysis does not follow them, so what is updated through them is invisible to an absence claim
            if isinstance(n, ast.Call) and ((isinstance(n.func, ast.Name) and n.func.id in ('attrgetter', 'methodcaller', 'itemgetter'))
                                            or (isinstance(n.func, ast.Attribute) and n.func.attr in ('attrgetter', 'methodcaller')
                                                and isinstance(n.func.value, ast.Name) and n.func.value.id == 'operator')):
                out.append((g, n))
            # a method chosen by name at run time and called: getattr(container, <non-constant>)(...) can be the very
            # append / remove whose absence is being claimed
            if isinstance(n, ast.Call) and isinstance(n.func, ast.Call) and isinstance(n.func.func, ast.Name) \
                    and n.func.func.id == 'getattr' and len(n.func.args) >= 2 \
                    and not isinstance(n.func.args[1], ast.Constant):
                out.append((g, n))
    cache[f.qname] = out
    return out


def _only_called_as_value(ctx, f) -> bool:
    """f is never called by name (`f(..)`, `x.f(..)`) anywhere in the package but is mentioned as a value (a table of
    steps, an argument): whoever calls it - and what runs before and after it - is not visible to a pairing rule."""
    import ast
    cache = ctx.__dict__.setdefault('_valonly', {})
    if f.qname in cache:
        return cache[f.qname]
    name = f.name
    calls = refs = 0
    for m in ctx.prog.modules.values():
        if m.generated:
            continue
        callfuncs = set()
        for n in ast.walk(m.tree):
            if isinstance(n, ast.Call):
                callfuncs.add(id(n.func))
        for n in ast.walk(m.tree):
            if isinstance(n, ast.Name) and n.id == name and isinstance(n.ctx, ast.Load):
                if id(n) in callfuncs:
                    calls += 1
                else:
                    refs += 1
            elif isinstance(n, ast.Attribute) and n.attr == name and isinstance(n.ctx, ast.Load):
                if id(n) in callfuncs:
                    calls += 1
                else:
                    refs += 1
    cache[f.qname] = (calls == 0 and refs > 0 and name.startswith('_') and not name.startswith('__'))
    return cache[f.qname]


def _uncalled_private(ctx, f) -> bool:
    """a private helper (its own or its class's name starts with '_') that nothing in the normalised program calls any
    more: every call site was un-extracted (E0b), so its statements were judged where they run - in the callers,
    together with the guards that surround the call there."""
    private = f.name.startswith('_') and not f.name.startswith('__') or (f.cls is not None and f.cls.name.startswith('_'))
    if not private:
        return False
    callers = getattr(ctx, '_callers_map', None)
    if callers is None:
        callers = {}
        for g in ctx.prog.all_funcs():
            try:
                for h in ctx.an.callees(g):
                    if h is not g:
                        callers.setdefault(h.qname, set()).add(g.qname)
            except Exception:
                pass
        ctx._callers_map = callers
    if callers.get(f.qname):
        return False
    # it must have been called somewhere in the source as written (otherwise it is an entry point of its own)
    name = f.name
    for m in ctx.prog.modules.values() if hasattr(ctx.prog, 'modules') else []:
        src = getattr(m, 'source', None)
        if src and ('.' + name + '(' in src or ' ' + name + '(' in src):
            return True
    return False


def _opacity_downgrade(ctx, rn, insts):
    if rn not in ABSENCE_RULES:
        return
    for i in insts:
        if i.verdict != 'violation':
            continue
        # clauses of these rules that point at something PRESENT in the code (a removal by computed position, a key
        # taken from the wrong attribute, a guard that skips a delegation) do not depend on what is invisible
        if i.construct.startswith(('REMOVES:', 'DELEGATE:', 'ATTACH:')) or ': KEY ' in i.construct:
            continue
        top = i.func
        if not ctx.prog.has_func(top):
            continue
        if _uncalled_private(ctx, ctx.prog.func(top)):
            i.verdict = 'info'
            i.msg = (f"[{top} is a private helper whose every call was un-extracted into its callers; its statements "
                     f"are judged there, with the guards around the call] " + i.msg)
            continue
        if _only_called_as_value(ctx, ctx.prog.func(top)):
            i.verdict = 'unproven'
            i.msg = (f"[not decided: {top} is never called by name, only handed around as a value (a table of steps, a "
                     f"callback): what runs before and after it is not visible here] " + i.msg)
            continue
        dw = _dynamic_writes(ctx, ctx.prog.func(top))
        if dw:
            g, n = dw[0]
            i.verdict = 'unproven'
            i.msg = (f"[not decided: {g.short}:{n.lineno} writes attributes / calls a method under a name computed at "
                     f"run time (setattr / getattr with a non-constant name), reachable from {top}; an absent update "
                     f"cannot be established from the source] " + i.msg)


def verdicts(pid: str, repo: str):
    """(violating instance keys not in known findings, all instances) for `pid` on the tree at `repo`;
    raises AnalysisError when the analysis is incomplete.  Used by the self-test (no output)."""
    from . import registry
    from .ctx import Ctx
    info = registry.PROPS[pid]
    ctx = Ctx(repo)
    registry.check_slot_tables(ctx)
    results = run_rules(ctx, info['rules'])
    mine = []
    for rn, insts in results.items():
        for i in insts:
            if pid in i.props or any(q in i.props for q in info.get('includes', [])) or \
                    any(i.rule == ar and i.func == af for ar, af in info.get('also', [])):
                mine.append(i)
    known = known_keys_for(pid)
    return [i for i in mine if i.verdict == 'violation' and i.key not in known], mine


def check(pid: str, tier: str, replay: str = None, repo: str = None, quiet=False, ctx=None) -> int:
    from . import registry
    from .ctx import Ctx
    t0 = time.time()
    seed = int(os.environ.get('VERIF_SEED', '0') or 0)
    if pid not in registry.PROPS:
        print(f'ANALYSIS-ERROR: no check registered for property {pid}')
        return 2
    info = registry.PROPS[pid]
    ctx = ctx or Ctx(repo)
    registry.check_slot_tables(ctx)
    results = run_rules(ctx, info['rules'])
    mine: list[Inst] = []
    for rn, insts in results.items():
        for i in insts:
            if pid in i.props or any(q in i.props for q in info.get('includes', [])) or \
                    any(i.rule == ar and i.func == af for ar, af in info.get('also', [])):
                mine.append(i)
    # anchors: every (rule, function) the property relies on must have produced an instance
    missing = []
    for rn, fn in info.get('anchors', []):
        if any(i.rule == rn and (i.func == fn or i.func.startswith(fn + '.')) for i in mine):
            continue
        # the logic may have been extracted into helpers: accept instances in (transitive) callees
        if ctx.prog.has_func(fn):
            reach = ctx.an.reachable([ctx.prog.func(fn)])
            names = {g.short for g in reach.values()}
            if any(i.rule == rn and i.func in names for rs in results.values() for i in rs):
                continue
        if rn in ABSENCE_RULES and ctx.prog.has_func(fn) and _dynamic_writes(ctx, ctx.prog.func(fn)):
            # the function is there but acts through names computed at run time: nothing to anchor on, nothing decided
            g, n = _dynamic_writes(ctx, ctx.prog.func(fn))[0]
            mine.append(Inst(rn, fn, 'anchor: expected rule instances', 'unproven',
                             msg=(f'{fn} (or a function it reaches, {g.short}:{n.lineno}) updates state through '
                                  f'setattr / getattr with a name computed at run time: the rule finds no construct '
                                  f'to decide'), file=ctx.prog.func(fn).module.relpath,
                             line=ctx.prog.func(fn).node.lineno, props=(pid,)))
            continue
        missing.append(f'{rn}@{fn}')
    if missing:
        print(f'ANALYSIS-INCOMPLETE: property={pid} expected rule instances vanished: '
              + ', '.join(missing))
        return 2
    floor = info.get('floor', 1)
    nontrivial = [i for i in mine if i.nontrivial]
    if len(nontrivial) < floor:
        print(f'ANALYSIS-INCOMPLETE: property={pid} only {len(nontrivial)} non-trivial rule '
              f'instances (floor {floor}) - anchors moved?')
        return 2

    if replay:
        with open(replay, encoding='utf-8') as f:
            rp = json.load(f)
        hits = [i for i in mine if i.key == rp['key']]
        if not hits:
            print(f'replay: instance {rp["key"]} no longer exists in the current tree')
            return 0
        rc = 0
        for i in hits:
            print(f'replay: {i.verdict.upper()} {i.key}\n        {i.file}:{i.line} {i.msg}')
            if i.verdict == 'violation':
                rc = 1
        return rc

    known = known_keys_for(pid)
    viol = [i for i in mine if i.verdict == 'violation']
    new_viol = [i for i in viol if i.key not in known]
    known_hit = [i for i in viol if i.key in known]
    unproven = [i for i in mine if i.verdict == 'unproven']

    if not quiet:
        per_rule = {}
        for i in mine:
            per_rule.setdefault(i.rule, [0, 0, 0])
            per_rule[i.rule][0] += 1
            per_rule[i.rule][1] += i.nontrivial
            per_rule[i.rule][2] += (i.verdict == 'violation')
        print(f'malsa {pid} tier={tier}: {len(ctx.prog.modules)} units, '
              f'{len(ctx.prog.funcs_q)} functions, {ctx.an.resolved_calls} call sites resolved, '
              f'{ctx.an.unresolved_calls} unresolved')
        for rn in info['rules']:
            a = per_rule.get(rn, [0, 0, 0])
            print(f'  {rn:5s} {registry.rule_title(rn):58s} instances={a[0]:3d} non-trivial={a[1]:3d} '
                  f'violations={a[2]}')
    seen_known = set()
    for i in known_hit:
        if i.key in seen_known:
            continue
        seen_known.add(i.key)
        print(f'KNOWN-FINDING: property={pid} {i.rule} {i.func} {i.construct} '
              f'({known[i.key].get("what", "")})')
    n = 0
    for i in new_viol:
        n += 1
        path = write_replay(pid, n, i, ctx.prog.repo)
        print(f'VIOLATION property={pid} replay={path}')
        print(f'    rule={i.rule} {i.file}:{i.line} in {i.func}')
        print(f'    construct: {i.construct}')
        print(f'    {i.msg}')
    for i in unproven:
        print(f'  unproven (not a verdict): {i.rule} {i.func}: {i.construct}')

    # thorough tier: self-test of the checkers on scratch variants (never a property verdict)
    selftest = None
    if tier == 'thorough':
        from . import selftest as st
        selftest = st.run_for(pid, quiet=quiet)
        if selftest.get('broken'):
            print(f'ANALYSIS-ERROR: checker self-test failed for {pid}: '
                  + '; '.join(selftest['broken'][:5]))
            return 2

    wall = time.time() - t0
    samples = []
    for i in (viol + [x for x in nontrivial if x.verdict != 'violation'])[:12]:
        samples.append(i.to_dict())
    coverage = {
        'explanation': info['explanation'],
        'obligations': len(mine),
        'discharged': sum(1 for i in mine if i.verdict in ('ok', 'info')) + len(known_hit),
        'evaluations': len(mine),
        'distinct_nontrivial': len({i.key for i in nontrivial}),
        'rule': ('rule instances = (rule, function, construct) obligations enumerated from the '
                 'current syntax trees; non-trivial = the rule had a real decision to make '
                 '(e.g. a loop whose body mutates some container, a writer of a slot field, '
                 'a codec key, a dispatcher case); distinct by normalised construct key'),
        'samples': samples,
        'exhaustive': True,
        'rules': {rn: registry.rule_title(rn) for rn in info['rules']},
        'units': ctx.prog.digests(),
        'functions_analysed': len(ctx.prog.funcs_q),
        'call_sites_resolved': ctx.an.resolved_calls,
        'call_sites_unresolved': ctx.an.unresolved_calls,
        'summary_rounds': ctx.an.rounds,
        'unproven': [i.to_dict() for i in unproven],
        'known_findings': sorted(seen_known),
        'undecided_clauses': info['undecided'],
        'repo': ctx.prog.repo,
    }
    if selftest is not None:
        coverage['selftest'] = selftest
    if not os.environ.get('MALSA_NO_EVIDENCE'):
        write_evidence(pid, tier, seed, wall, coverage, info['assumptions'], len(new_viol))
    if new_viol:
        return 1
    if not quiet:
        print(f'OK property={pid}: {len(mine)} obligations, {coverage["discharged"]} discharged, '
              f'{len(seen_known)} known finding(s), {wall:.2f}s')
    return 0


def check_all(repo: str = None) -> dict:
    """every property's quick check on one shared analysis context (used by the seed sweep: one parse, one run of
    each rule).  -> {pid: {'exit': code, 'rules': [...]}}; no evidence is written."""
    import contextlib
    import io
    import re
    from . import registry
    from .ctx import Ctx
    os.environ['MALSA_NO_EVIDENCE'] = '1'
    ctx = Ctx(repo)
    out = {}
    for pid in sorted(registry.PROPS):
        buf = io.StringIO()
        try:
            with contextlib.redirect_stdout(buf):
                code = check(pid, 'quick', repo=repo, ctx=ctx)
        except Exception as e:      # same contract as the CLI: analysis errors are exit 2
            code = 2
            buf.write(f'ANALYSIS-ERROR: {e}')
        txt = buf.getvalue()
        out[pid] = {'exit': code, 'rules': sorted(set(re.findall(r'rule=(\w+)', txt))) if code == 1 else [],
                    'note': txt.strip().splitlines()[-1][:200] if code == 2 and txt.strip() else ''}
    return out
