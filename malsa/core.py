"""E0-E3: loader, class model, light type resolver, callee resolution.

Everything is derived from the *current* source under MALSA_REPO (default /repo).
"""
from __future__ import annotations

import ast
import hashlib
import os
from collections import OrderedDict
from typing import Iterator, Optional

REPO = os.environ.get('MALSA_REPO', '/repo')
PKG = 'maltoolbox'
GENERATED = ('language/compiler/mal_parser.py', 'language/compiler/mal_lexer.py')


class AnalysisError(Exception):
    """Analysis cannot be completed (vanished anchor, unparsable unit...) -> exit 2."""


# --------------------------------------------------------------------------- types
# Type terms are small tuples:
#   ('cls', Name) ('list', T) ('set', T) ('dict', K, V) ('tuple', (T, ...))
#   ('pjs',)  python_jsonschema_objects instance (asset or association)
#   ('str',) ('int',) ('float',) ('bool',) ('none',) ('unk',)
UNK = ('unk',)
PJS = ('pjs',)
SCALARS = {'str': ('str',), 'int': ('int',), 'float': ('float',), 'bool': ('bool',)}

# attributes of pjs objects as used by the repository (fixed table, DESIGN section 3/E2)
PJS_ATTRS = {
    'associations': ('list', PJS),
    'attack_step_nodes': ('list', ('cls', 'AttackGraphNode')),
    'id': ('int',), 'name': ('str',), 'type': ('str',),
    'extras': ('dict', ('str',), UNK),
    '_properties': ('dict', ('str',), UNK),
}
# class fields whose annotation is Any/absent but whose run-time type is known by reading
FIELD_TYPE_OVERRIDES = {
    ('AttackGraphNode', 'asset'): PJS,
    ('AttackGraph', 'lang_graph'): ('cls', 'LanguageGraph'),
    ('LanguageGraph', 'assets'): ('list', ('cls', 'LanguageGraphAsset')),
    ('LanguageGraph', 'associations'): ('list', ('cls', 'LanguageGraphAssociation')),
    ('LanguageGraph', 'attack_steps'): ('list', ('cls', 'LanguageGraphAttackStep')),
    ('LanguageGraphAsset', 'super_assets'): ('list', ('cls', 'LanguageGraphAsset')),
    ('LanguageGraphAsset', 'sub_assets'): ('list', ('cls', 'LanguageGraphAsset')),
    ('Model', 'assets'): ('list', PJS),
    ('Model', 'associations'): ('list', PJS),
    ('AttackerAttachment', 'entry_points'): ('list', ('tuple', (PJS, ('list', ('str',))))),
}


def elem_type(t):
    if t[0] in ('list', 'set'):
        return t[1]
    if t[0] == 'dict':
        return t[1]          # iterating a dict yields keys
    if t[0] == 'tuple' and t[1]:
        return t[1][0] if all(x == t[1][0] for x in t[1]) else UNK
    return UNK


class Module:
    def __init__(self, relpath: str, source: str):
        self.relpath = relpath                       # e.g. maltoolbox/model.py
        self.modname = relpath[:-3].replace('/', '.')
        if self.modname.endswith('.__init__'):
            self.modname = self.modname[:-9]
        self.is_pkg = relpath.endswith('__init__.py')
        self.source = source
        self.sha256 = hashlib.sha256(source.encode()).hexdigest()
        from .normalize import normalize
        self.tree = normalize(ast.parse(source, filename=relpath))
        self.imports: dict[str, tuple[str, Optional[str]]] = {}
        self.functions: dict[str, 'Func'] = {}
        self.classes: dict[str, 'ClassInfo'] = {}
        self.generated = relpath.endswith(GENERATED)


class FieldInfo:
    def __init__(self, name, ann, default, lineno, origin):
        self.name = name
        self.ann = ann              # ast expr or None
        self.default = default      # ast expr or None
        self.lineno = lineno
        self.origin = origin        # 'dataclass' | 'init' | 'classvar'
        self.type = UNK


class ClassInfo:
    def __init__(self, module: Module, node: ast.ClassDef):
        self.module = module
        self.node = node
        self.name = node.name
        self.bases = [ast.unparse(b) for b in node.bases]
        self.is_dataclass = any(
            (isinstance(d, ast.Name) and d.id == 'dataclass') or
            (isinstance(d, ast.Call) and isinstance(d.func, ast.Name) and d.func.id == 'dataclass') or
            (isinstance(d, ast.Attribute) and d.attr == 'dataclass')
            for d in node.decorator_list)
        self.fields: 'OrderedDict[str, FieldInfo]' = OrderedDict()
        self.methods: dict[str, Func] = {}
        self.properties: set[str] = set()


class Func:
    def __init__(self, module: Module, node, cls: Optional[ClassInfo], parent: Optional['Func']):
        self.module = module
        self.node = node
        self.cls = cls
        self.parent = parent
        self.name = node.name
        decos = [ast.unparse(d) for d in node.decorator_list]
        self.is_classmethod = 'classmethod' in decos
        self.is_staticmethod = 'staticmethod' in decos
        self.is_property = 'property' in decos
        a = node.args
        self.params = [x.arg for x in a.posonlyargs + a.args]
        self.kwonly = [x.arg for x in a.kwonlyargs]
        self.param_ann = {x.arg: x.annotation for x in a.posonlyargs + a.args + a.kwonlyargs}
        defaults = a.defaults
        self.param_default = {}
        for p, d in zip(reversed(a.posonlyargs + a.args), reversed(defaults)):
            self.param_default[p.arg] = d
        for p, d in zip(a.kwonlyargs, a.kw_defaults):
            if d is not None:
                self.param_default[p.arg] = d
        if parent is not None:
            self.short = parent.short + '.' + node.name
        elif cls is not None:
            self.short = cls.name + '.' + node.name
        else:
            self.short = node.name
        self.qname = module.modname + ':' + self.short
        self.nested: dict[str, Func] = {}
        self._env = None

    @property
    def is_method(self):
        return self.cls is not None and self.parent is None and not self.is_staticmethod

    @property
    def self_name(self):
        if self.is_method and self.params:
            return self.params[0]
        return None

    def __repr__(self):
        return f'<Func {self.qname}>'


class Program:
    """All hand-written and generated modules of the package, parsed."""

    def __init__(self, repo: str = None):
        self.repo = repo or REPO
        self.modules: dict[str, Module] = {}        # by relpath
        self.by_modname: dict[str, Module] = {}
        self.classes: dict[str, ClassInfo] = {}     # by simple name (unique in this package)
        self.funcs: dict[str, Func] = {}            # by short name 'Class.meth' / 'func' / 'outer.inner'
        self.funcs_q: dict[str, Func] = {}          # by qname
        self.ambiguous_short: set[str] = set()
        self._load()
        self._class_model()

    # ------------------------------------------------------------------ loading
    def _load(self):
        root = os.path.join(self.repo, PKG)
        if not os.path.isdir(root):
            raise AnalysisError(f'package directory {root} not found')
        for dirpath, dirnames, filenames in os.walk(root):
            dirnames[:] = sorted(d for d in dirnames if d != '__pycache__')
            for fn in sorted(filenames):
                if not fn.endswith('.py'):
                    continue
                full = os.path.join(dirpath, fn)
                rel = os.path.relpath(full, self.repo)
                with open(full, encoding='utf-8') as f:
                    src = f.read()
                try:
                    m = Module(rel, src)
                except SyntaxError as e:
                    raise AnalysisError(f'{rel}: does not parse: {e}')
                self.modules[rel] = m
                self.by_modname[m.modname] = m
        for m in self.modules.values():
            self._index_module(m)

    def _resolve_from(self, m: Module, level: int, module: Optional[str]) -> str:
        if level == 0:
            return module or ''
        parts = m.modname.split('.')
        if not m.is_pkg:
            parts = parts[:-1]
        if level > 1:
            parts = parts[:len(parts) - (level - 1)]
        if module:
            parts = parts + module.split('.')
        return '.'.join(parts)

    def _index_module(self, m: Module):
        for node in ast.walk(m.tree):
            if isinstance(node, ast.Import):
                for al in node.names:
                    m.imports[al.asname or al.name.split('.')[0]] = (al.name, None)
            elif isinstance(node, ast.ImportFrom):
                base = self._resolve_from(m, node.level, node.module)
                for al in node.names:
                    m.imports[al.asname or al.name] = (base, al.name)
        if m.generated:
            # generated parser/lexer: only class names are indexed (Context accessors are
            # read on demand by the grammar rule)
            return

        def visit_body(body, cls, parent):
            for st in body:
                if isinstance(st, (ast.FunctionDef, ast.AsyncFunctionDef)):
                    f = Func(m, st, cls, parent)
                    if parent is not None:
                        parent.nested[st.name] = f
                    elif cls is not None:
                        cls.methods[st.name] = f
                        if f.is_property:
                            cls.properties.add(st.name)
                    else:
                        m.functions[st.name] = f
                    if f.short in self.funcs:
                        self.ambiguous_short.add(f.short)
                    self.funcs[f.short] = f
                    self.funcs_q[f.qname] = f
                    # nested defs (anywhere in the body)
                    for sub in ast.walk(st):
                        pass
                    visit_nested(st, f)
                elif isinstance(st, ast.ClassDef) and parent is None and cls is None:
                    c = ClassInfo(m, st)
                    m.classes[c.name] = c
                    if c.name in self.classes:
                        raise AnalysisError(f'class name {c.name} defined twice in the package')
                    self.classes[c.name] = c
                    visit_body(st.body, c, None)

        def visit_nested(fnode, f: Func):
            # find function defs directly nested in f (not inside deeper defs)
            stack = list(fnode.body)
            while stack:
                st = stack.pop(0)
                if isinstance(st, (ast.FunctionDef, ast.AsyncFunctionDef)):
                    g = Func(m, st, f.cls, f)
                    f.nested[st.name] = g
                    if g.short in self.funcs:
                        self.ambiguous_short.add(g.short)
                    self.funcs[g.short] = g
                    self.funcs_q[g.qname] = g
                    visit_nested(st, g)
                elif isinstance(st, ast.ClassDef):
                    continue
                else:
                    for ch in ast.iter_child_nodes(st):
                        if isinstance(ch, (ast.stmt, ast.match_case, ast.ExceptHandler)):
                            stack.append(ch)

        visit_body(m.tree.body, None, None)

    # ------------------------------------------------------------------ class model
    def _class_model(self):
        for c in self.classes.values():
            # class-level annotated assignments: dataclass fields / class vars
            for st in c.node.body:
                if isinstance(st, ast.AnnAssign) and isinstance(st.target, ast.Name):
                    fi = FieldInfo(st.target.id, st.annotation, st.value, st.lineno,
                                   'dataclass' if c.is_dataclass else 'classvar')
                    c.fields[fi.name] = fi
            init = c.methods.get('__init__')
            if init is not None:
                selfn = init.self_name
                for node in ast.walk(init.node):
                    tgt = ann = val = None
                    if isinstance(node, ast.AnnAssign):
                        tgt, ann, val = node.target, node.annotation, node.value
                    elif isinstance(node, ast.Assign) and len(node.targets) == 1:
                        tgt, val = node.targets[0], node.value
                    if (isinstance(tgt, ast.Attribute) and isinstance(tgt.value, ast.Name)
                            and tgt.value.id == selfn):
                        if tgt.attr not in c.fields or c.fields[tgt.attr].origin == 'classvar':
                            c.fields[tgt.attr] = FieldInfo(tgt.attr, ann, val, node.lineno, 'init')
        for c in self.classes.values():
            for fi in c.fields.values():
                ov = FIELD_TYPE_OVERRIDES.get((c.name, fi.name))
                if ov is not None:
                    fi.type = ov
                elif fi.ann is not None:
                    fi.type = self.type_of_annotation(fi.ann)
                elif fi.default is not None:
                    fi.type = self.type_of_literal(fi.default)
                if fi.type == UNK and fi.default is not None and fi.origin == 'init':
                    t = self.type_of_literal(fi.default)
                    init = c.methods.get('__init__')
                    if t == UNK and isinstance(fi.default, ast.Name) and init is not None \
                            and fi.default.id in init.param_ann:
                        t = self.type_of_annotation(init.param_ann[fi.default.id])
                    if t != UNK:
                        fi.type = t

    # ------------------------------------------------------------------ types
    def type_of_annotation(self, ann) -> tuple:
        if ann is None:
            return UNK
        if isinstance(ann, ast.Constant):
            if isinstance(ann.value, str):
                try:
                    return self.type_of_annotation(ast.parse(ann.value, mode='eval').body)
                except SyntaxError:
                    return UNK
            if ann.value is None:
                return ('none',)
            return UNK
        if isinstance(ann, ast.Name):
            n = ann.id
            if n in SCALARS:
                return SCALARS[n]
            if n in ('list', 'List'):
                return ('list', UNK)
            if n in ('dict', 'Dict'):
                return ('dict', UNK, UNK)
            if n in ('set', 'Set'):
                return ('set', UNK)
            if n in ('tuple', 'Tuple'):
                return ('tuple', ())
            if n == 'SchemaGeneratedClass':
                return PJS
            if n in self.classes:
                return ('cls', n)
            return UNK
        if isinstance(ann, ast.Attribute):
            if ann.attr in self.classes:
                return ('cls', ann.attr)
            return UNK
        if isinstance(ann, ast.Subscript):
            base = ann.value
            bn = base.id if isinstance(base, ast.Name) else (base.attr if isinstance(base, ast.Attribute) else '')
            sl = ann.slice
            args = list(sl.elts) if isinstance(sl, ast.Tuple) else [sl]
            if bn == 'Optional':
                return self.type_of_annotation(args[0])
            if bn in ('list', 'List', 'Sequence', 'Iterable', 'MutableSequence'):
                return ('list', self.type_of_annotation(args[0]))
            if bn in ('set', 'Set', 'frozenset'):
                return ('set', self.type_of_annotation(args[0]))
            if bn in ('dict', 'Dict', 'Mapping', 'MutableMapping'):
                k = self.type_of_annotation(args[0])
                v = self.type_of_annotation(args[1]) if len(args) > 1 else UNK
                return ('dict', k, v)
            if bn in ('tuple', 'Tuple'):
                return ('tuple', tuple(self.type_of_annotation(a) for a in args))
            return UNK
        if isinstance(ann, ast.BinOp) and isinstance(ann.op, ast.BitOr):
            l = self.type_of_annotation(ann.left)
            r = self.type_of_annotation(ann.right)
            if l == ('none',):
                return r
            if r == ('none',):
                return l
            return l if l == r else UNK
        return UNK

    def type_of_literal(self, e) -> tuple:
        if isinstance(e, ast.List):
            return ('list', UNK)
        if isinstance(e, ast.Dict):
            return ('dict', UNK, UNK)
        if isinstance(e, ast.Set):
            return ('set', UNK)
        if isinstance(e, ast.Call) and isinstance(e.func, ast.Name):
            if e.func.id == 'set':
                return ('set', UNK)
            if e.func.id == 'list':
                return ('list', UNK)
            if e.func.id == 'dict':
                return ('dict', UNK, UNK)
        if isinstance(e, ast.Constant):
            v = e.value
            if isinstance(v, bool):
                return ('bool',)
            if isinstance(v, int):
                return ('int',)
            if isinstance(v, float):
                return ('float',)
            if isinstance(v, str):
                return ('str',)
            if v is None:
                return ('none',)
        return UNK

    # ------------------------------------------------------------------ lookups
    def func(self, short: str) -> Func:
        f = self.funcs.get(short)
        if f is None:
            raise AnalysisError(f'anchor function {short} not found in the current tree')
        if short in self.ambiguous_short:
            raise AnalysisError(f'anchor function name {short} is ambiguous in the current tree')
        return f

    def has_func(self, short: str) -> bool:
        return short in self.funcs

    def cls(self, name: str) -> ClassInfo:
        c = self.classes.get(name)
        if c is None:
            raise AnalysisError(f'anchor class {name} not found in the current tree')
        return c

    def module(self, relpath: str) -> Module:
        m = self.modules.get(relpath)
        if m is None:
            raise AnalysisError(f'anchor file {relpath} not found in the current tree')
        return m

    def find_method(self, clsname: str, meth: str) -> Optional[Func]:
        seen = set()
        stack = [clsname]
        while stack:
            cn = stack.pop(0)
            if cn in seen or cn not in self.classes:
                continue
            seen.add(cn)
            c = self.classes[cn]
            if meth in c.methods:
                return c.methods[meth]
            stack.extend(b.split('.')[-1] for b in c.bases)
        return None

    def field_type(self, clsname: str, attr: str) -> tuple:
        seen = set()
        stack = [clsname]
        while stack:
            cn = stack.pop(0)
            if cn in seen or cn not in self.classes:
                continue
            seen.add(cn)
            c = self.classes[cn]
            if attr in c.fields:
                return c.fields[attr].type
            if attr in c.properties:
                return self.type_of_annotation(c.methods[attr].node.returns)
            stack.extend(b.split('.')[-1] for b in c.bases)
        return UNK

    def all_funcs(self, include_generated=False) -> Iterator[Func]:
        for f in self.funcs_q.values():
            yield f

    def handwritten_modules(self):
        return [m for m in self.modules.values() if not m.generated]

    def digests(self):
        return {m.relpath: m.sha256[:16] for m in self.modules.values()}

    # ------------------------------------------------------------------ envs
    def env(self, f: Func) -> 'TypeEnv':
        if f._env is None:
            f._env = TypeEnv(self, f)
        return f._env


def own_nodes(fnode) -> Iterator[ast.AST]:
    """Walk the body of a function without descending into nested defs/classes/lambdas' own
    scopes (lambdas and comprehensions ARE visited: they execute in the function's activation)."""
    stack = list(reversed(fnode.body))
    while stack:
        n = stack.pop()
        yield n
        if isinstance(n, (ast.FunctionDef, ast.AsyncFunctionDef, ast.ClassDef)):
            continue        # a nested definition: its body belongs to another activation
        for ch in reversed(list(ast.iter_child_nodes(n))):
            if isinstance(ch, (ast.FunctionDef, ast.AsyncFunctionDef, ast.ClassDef)):
                continue
            stack.append(ch)


class TypeEnv:
    """Flow-insensitive local type inference for one function (annotation driven)."""

    def __init__(self, prog: Program, f: Func):
        self.prog = prog
        self.f = f
        self.vars: dict[str, tuple] = {}
        self._seed()
        for _ in range(4):
            if not self._round():
                break

    def _seed(self):
        f = self.f
        for p in f.params + f.kwonly:
            t = self.prog.type_of_annotation(f.param_ann.get(p))
            self.vars[p] = t
        if f.is_method and f.params:
            if f.is_classmethod:
                self.vars[f.params[0]] = ('clsobj', f.cls.name)
            else:
                self.vars[f.params[0]] = ('cls', f.cls.name)
        # closures: parameters / locals of the enclosing function
        if f.parent is not None:
            penv = self.prog.env(f.parent)
            for k, v in penv.vars.items():
                self.vars.setdefault(k, v)
        # name-based conventions for un-annotated parameters (confirmed by reading)
        conv = {'graph': ('cls', 'AttackGraph'), 'model': ('cls', 'Model'),
                'lang_graph': ('cls', 'LanguageGraph'),
                'lang_classes_factory': ('cls', 'LanguageClassesFactory')}
        for p in f.params:
            if self.vars.get(p, UNK) == UNK and p in conv:
                self.vars[p] = conv[p]

    def _bind(self, target, t) -> bool:
        ch = False
        if isinstance(target, ast.Name):
            old = self.vars.get(target.id, UNK)
            if old == UNK and t != UNK:
                self.vars[target.id] = t
                ch = True
        elif isinstance(target, (ast.Tuple, ast.List)):
            if t[0] == 'tuple' and len(t[1]) == len(target.elts):
                for el, et in zip(target.elts, t[1]):
                    ch |= self._bind(el, et)
        return ch

    def _round(self) -> bool:
        ch = False
        for n in own_nodes(self.f.node):
            if isinstance(n, ast.Assign):
                t = self.type_of(n.value)
                for tg in n.targets:
                    ch |= self._bind(tg, t)
            elif isinstance(n, ast.AnnAssign) and isinstance(n.target, ast.Name):
                t = self.prog.type_of_annotation(n.annotation)
                if t == UNK and n.value is not None:
                    t = self.type_of(n.value)
                ch |= self._bind(n.target, t)
            elif isinstance(n, ast.NamedExpr):
                ch |= self._bind(n.target, self.type_of(n.value))
            elif isinstance(n, (ast.For, ast.comprehension)):
                it = self.type_of(n.iter)
                et = elem_type(it)
                # dict.items()
                if (isinstance(n.iter, ast.Call) and isinstance(n.iter.func, ast.Attribute)
                        and n.iter.func.attr == 'items'):
                    dt = self.type_of(n.iter.func.value)
                    if dt[0] == 'dict':
                        et = ('tuple', (dt[1], dt[2]))
                ch |= self._bind(n.target, et)
            elif isinstance(n, ast.With):
                for it in n.items:
                    if it.optional_vars is not None:
                        ch |= self._bind(it.optional_vars, self.type_of(it.context_expr))
        return ch

    # -- expression typing
    def type_of(self, e) -> tuple:
        prog = self.prog
        if isinstance(e, ast.Name):
            if e.id in self.vars:
                return self.vars[e.id]
            if e.id in prog.classes:
                return ('clsobj', e.id)
            return UNK
        if isinstance(e, ast.Attribute):
            bt = self.type_of(e.value)
            if bt[0] == 'cls':
                return prog.field_type(bt[1], e.attr)
            if bt == PJS:
                return PJS_ATTRS.get(e.attr, UNK)
            return UNK
        if isinstance(e, ast.Subscript):
            bt = self.type_of(e.value)
            if bt[0] == 'list':
                if isinstance(e.slice, ast.Slice):
                    return bt
                return bt[1]
            if bt[0] == 'dict':
                return bt[2]
            if bt[0] == 'tuple' and isinstance(e.slice, ast.Constant) and isinstance(e.slice.value, int):
                i = e.slice.value
                if 0 <= i < len(bt[1]):
                    return bt[1][i]
            return UNK
        if isinstance(e, ast.Call):
            return self._type_of_call(e)
        if isinstance(e, (ast.List, ast.ListComp)):
            if isinstance(e, ast.List) and e.elts:
                first = e.elts[0]
                if isinstance(first, ast.Starred):
                    # [*xs, ..]: the elements of xs
                    t = self.type_of(first.value)
                    return ('list', t[1]) if t[0] in ('list', 'set') else ('list', UNK)
                return ('list', self.type_of(first))
            if isinstance(e, ast.ListComp) and len(e.generators) == 1 and isinstance(e.elt, ast.Name) \
                    and isinstance(e.generators[0].target, ast.Name) and e.elt.id == e.generators[0].target.id:
                t = self.type_of(e.generators[0].iter)       # [x for x in xs (if ..)]: a filtered copy
                if t[0] in ('list', 'set'):
                    return ('list', t[1])
            return ('list', UNK)
        if isinstance(e, (ast.Dict, ast.DictComp)):
            return ('dict', UNK, UNK)
        if isinstance(e, (ast.Set, ast.SetComp)):
            return ('set', UNK)
        if isinstance(e, ast.Tuple):
            return ('tuple', tuple(self.type_of(x) for x in e.elts))
        if isinstance(e, ast.Constant):
            return prog.type_of_literal(e)
        if isinstance(e, ast.IfExp):
            a = self.type_of(e.body)
            b = self.type_of(e.orelse)
            if a == ('none',) or a == UNK:
                return b
            return a
        if isinstance(e, ast.BoolOp):
            ts = [self.type_of(v) for v in e.values]
            for t in ts:
                if t != UNK and t != ('none',):
                    return t
            return UNK
        if isinstance(e, ast.JoinedStr):
            return ('str',)
        if isinstance(e, ast.Compare):
            return ('bool',)
        if isinstance(e, ast.UnaryOp) and isinstance(e.op, ast.Not):
            return ('bool',)
        if isinstance(e, ast.NamedExpr):
            return self.type_of(e.value)
        if isinstance(e, ast.GeneratorExp):
            return ('list', UNK)
        return UNK

    def _type_of_call(self, e: ast.Call) -> tuple:
        prog = self.prog
        fn = e.func
        if isinstance(fn, ast.Name):
            n = fn.id
            if n in prog.classes:
                return ('cls', n)
            if n in ('list', 'sorted', 'reversed'):
                if e.args:
                    t = self.type_of(e.args[0])
                    if t[0] in ('list', 'set'):
                        return ('list', t[1])
                    if t[0] == 'dict':
                        return ('list', t[1])
                return ('list', UNK)
            if n == 'set':
                if e.args:
                    t = self.type_of(e.args[0])
                    if t[0] in ('list', 'set'):
                        return ('set', t[1])
                return ('set', UNK)
            if n == 'dict':
                return ('dict', UNK, UNK)
            if n == 'tuple':
                if e.args:
                    # tuple(xs): a frozen snapshot of a homogeneous collection - iterated like the list it copies
                    t = self.type_of(e.args[0])
                    if t[0] in ('list', 'set'):
                        return ('list', t[1])
                return ('tuple', ())
            if n in ('str', 'repr'):
                return ('str',)
            if n in ('int', 'len', 'id', 'hash'):
                return ('int',)
            if n == 'float':
                return ('float',)
            if n in ('bool', 'isinstance', 'hasattr', 'any', 'all'):
                return ('bool',)
            if n == 'next' and e.args:
                g = e.args[0]
                if isinstance(g, ast.GeneratorExp):
                    return self._elt_type_of_gen(g)
                return UNK
            if n == 'getattr' and e.args:
                bt = self.type_of(e.args[0])
                if bt == PJS:
                    # association field (computed name) -> list of assets
                    if len(e.args) > 1 and isinstance(e.args[1], ast.Constant):
                        return PJS_ATTRS.get(e.args[1].value, UNK)
                    return ('list', PJS)
                return UNK
            callee = self.resolve_name_callee(n)
            if callee is not None:
                return prog.type_of_annotation(callee.node.returns)
            return UNK
        if isinstance(fn, ast.Attribute):
            # copy.deepcopy / copy.copy keep the type
            if isinstance(fn.value, ast.Name) and fn.value.id == 'copy' and fn.attr in ('deepcopy', 'copy') and e.args:
                return self.type_of(e.args[0])
            bt = self.type_of(fn.value)
            if bt[0] in ('cls', 'clsobj'):
                m = prog.find_method(bt[1], fn.attr)
                if m is not None:
                    return prog.type_of_annotation(m.node.returns)
            if bt[0] == 'dict':
                if fn.attr in ('get', 'pop', 'setdefault'):
                    return bt[2]
                if fn.attr == 'keys':
                    return ('list', bt[1])
                if fn.attr == 'values':
                    return ('list', bt[2])
                if fn.attr == 'items':
                    return ('list', ('tuple', (bt[1], bt[2])))
                if fn.attr == 'copy':
                    return bt
            if bt[0] == 'list':
                if fn.attr == 'pop':
                    return bt[1]
                if fn.attr == 'copy':
                    return bt
            if bt[0] == 'set':
                if fn.attr in ('intersection', 'union', 'difference', 'copy'):
                    return bt
        if isinstance(fn, ast.Call):
            # getattr(ns, name)(...) -> pjs object
            if isinstance(fn.func, ast.Name) and fn.func.id == 'getattr':
                return PJS
        return UNK

    def _elt_type_of_gen(self, g: ast.GeneratorExp) -> tuple:
        # next((x for x in xs if ...), None): type of the element expression
        gen = g.generators[0]
        it = self.type_of(gen.iter)
        if isinstance(g.elt, ast.Name) and isinstance(gen.target, ast.Name) and g.elt.id == gen.target.id:
            return elem_type(it)
        return UNK

    # -- callee resolution
    def resolve_name_callee(self, name: str) -> Optional[Func]:
        f = self.f
        g = f
        while g is not None:
            if name in g.nested:
                return g.nested[name]
            g = g.parent
        m = f.module
        if name in m.functions:
            return m.functions[name]
        if name in m.imports:
            modname, attr = m.imports[name]
            return self._lookup_import(modname, attr)
        return None

    def _lookup_import(self, modname, attr, depth=0) -> Optional[Func]:
        if attr is None or depth > 3:
            return None
        tm = self.prog.by_modname.get(modname)
        if tm is None:
            return None
        if attr in tm.functions:
            return tm.functions[attr]
        if attr in tm.imports:   # re-export through __init__
            mn, at = tm.imports[attr]
            return self._lookup_import(mn, at, depth + 1)
        return None

    def resolve_call(self, e: ast.Call):
        """-> ('func', Func) | ('ctor', ClassInfo, Optional[Func init]) | ('builtin', name)
              | ('method', recv_expr, name, recv_type)  unresolved method on non-class receiver
              | ('unknown', text)"""
        prog = self.prog
        fn = e.func
        if isinstance(fn, ast.Name):
            n = fn.id
            if n in prog.classes and n not in self.vars:
                c = prog.classes[n]
                return ('ctor', c, c.methods.get('__init__'))
            callee = self.resolve_name_callee(n)
            if callee is not None:
                return ('func', callee)
            if n in self.vars:
                return ('unknown', n)
            return ('builtin', n)
        if isinstance(fn, ast.Attribute):
            if isinstance(fn.value, ast.Name) and fn.value.id in self.f.module.imports \
                    and fn.value.id not in self.vars:
                modname, attr = self.f.module.imports[fn.value.id]
                if attr is None:
                    # module attribute call: copy.deepcopy, json.dumps, os.path...
                    tm = prog.by_modname.get(modname)
                    if tm is not None and fn.attr in tm.functions:
                        return ('func', tm.functions[fn.attr])
                    return ('builtin', modname + '.' + fn.attr)
            if isinstance(fn.value, ast.Call) and isinstance(fn.value.func, ast.Name) \
                    and fn.value.func.id == 'super':
                if self.f.cls is not None:
                    for b in self.f.cls.bases:
                        m = prog.find_method(b.split('.')[-1], fn.attr)
                        if m is not None:
                            return ('func', m)
                return ('builtin', 'super.' + fn.attr)
            bt = self.type_of(fn.value)
            if bt[0] in ('cls', 'clsobj'):
                m = prog.find_method(bt[1], fn.attr)
                if m is not None:
                    return ('func', m)
                if bt[0] == 'clsobj':
                    return ('unknown', ast.unparse(fn))
            return ('method', fn.value, fn.attr, bt)
        if isinstance(fn, ast.Call):
            if isinstance(fn.func, ast.Name) and fn.func.id == 'getattr':
                return ('builtin', 'pjs_ctor')
        return ('unknown', ast.unparse(fn))


def const_str(e) -> Optional[str]:
    if isinstance(e, ast.Constant) and isinstance(e.value, str):
        return e.value
    return None


def stmt_text(node, limit=110) -> str:
    """Normalised single-line text of a construct (used as a finding key; no line numbers)."""
    try:
        s = ast.unparse(node)
    except Exception:       # pragma: no cover
        s = type(node).__name__
    s = ' '.join(s.split())
    if len(s) > limit:
        s = s[:limit - 3] + '...'
    return s
