"""CLI:  python -m malsa check <Cxx> [--tier quick|thorough] [--replay PATH]
         python -m malsa setup | list | manifest

Exit codes: 0 every decided clause holds (known findings printed as KNOWN-FINDING lines);
1 at least one VIOLATION not listed in known_findings.json; 2 ANALYSIS-ERROR / INCOMPLETE.
"""
from __future__ import annotations

import json
import os
import sys
import time
import traceback


def main(argv):
    if not argv:
        print(__doc__)
        return 2
    cmd = argv[0]
    if cmd == 'setup':
        from .ctx import Ctx
        from . import registry
        t0 = time.time()
        ctx = Ctx()
        registry.check_slot_tables(ctx)
        print(f'malsa setup ok: python {sys.version.split()[0]}, {len(ctx.prog.modules)} units, '
              f'{len(ctx.prog.funcs_q)} functions, {ctx.an.rounds} summary rounds, '
              f'{time.time() - t0:.2f}s')
        return 0
    if cmd == 'list':
        from . import registry
        for pid, info in sorted(registry.PROPS.items()):
            print(pid, ' '.join(info['rules']))
        return 0
    if cmd == 'manifest':
        from . import registry
        registry.write_manifest()
        return 0
    if cmd == 'check':
        pid = argv[1]
        tier = os.environ.get('VERIF_TIER', 'quick')
        replay = None
        i = 2
        while i < len(argv):
            if argv[i] == '--tier':
                tier = argv[i + 1]
                i += 2
            elif argv[i] == '--replay':
                replay = argv[i + 1]
                i += 2
            else:
                i += 1
        from . import runner
        return runner.check(pid, tier, replay)
    print(__doc__)
    return 2


if __name__ == '__main__':
    try:
        rc = main(sys.argv[1:])
    except SystemExit:
        raise
    except Exception as e:          # never let a traceback look like a violation (exit 1)
        from .core import AnalysisError
        kind = 'ANALYSIS-INCOMPLETE' if isinstance(e, AnalysisError) else 'ANALYSIS-ERROR'
        print(f'{kind}: {e}')
        if not isinstance(e, AnalysisError):
            traceback.print_exc()
        rc = 2
    sys.stdout.flush()
    sys.exit(rc)
