"""R17 engine: guarded-effect normal form (GENF) of small functions and canonical decision tables.

A function body is walked syntax-directed (never executed): every path through if / match /
early-exit loops yields (path condition, attribute assignments, calls, appended elements, return
value) with all expressions turned into canonical terms over the parameters.  Loops are admitted
only through the idioms of DESIGN appendix C (folds, early-exit searches, per-element effect
loops, filter/flat-map appends, comprehensions).  The result is canonicalised into a decision
table: the essential atoms (sorted) and the outcome for every valuation of them - equal tables
<=> same guarded effects modulo propositional equivalence, branch order, De Morgan, local renames,
`match` vs `if/elif`, loop vs any()/all().  Logging calls, asserts and docstrings are ignored.
Anything outside the recognised language raises Unsupported (reported as unproven, never as a
violation).
"""
from __future__ import annotations

import ast
import itertools
from typing import Optional

MAX_ATOMS = 14


class Unsupported(Exception):
    pass


# ------------------------------------------------------------------------------------------ terms
def T(*xs):
    return tuple(xs)


TRUE = ('const', True)
FALSE = ('const', False)
NONE = ('const', None)


def lit(v):
    """constant term; non-boolean constants carry their type so that 0 / 0.0 / False stay distinct."""
    if isinstance(v, bool) or v is None:
        return ('const', v)
    return ('lit', type(v).__name__, repr(v))


def mk_not(a):
    if a == TRUE:
        return FALSE
    if a == FALSE:
        return TRUE
    if a[0] == 'not':
        return a[1]
    return ('not', a)


def mk_and(*xs):
    out = []
    for x in xs:
        if x == TRUE:
            continue
        if x == FALSE:
            return FALSE
        if x[0] == 'and':
            out.extend(x[1])
        else:
            out.append(x)
    if not out:
        return TRUE
    if len(out) == 1:
        return out[0]
    return ('and', tuple(out))


def mk_or(*xs):
    out = []
    for x in xs:
        if x == FALSE:
            continue
        if x == TRUE:
            return TRUE
        if x[0] == 'or':
            out.extend(x[1])
        else:
            out.append(x)
    if not out:
        return FALSE
    if len(out) == 1:
        return out[0]
    return ('or', tuple(out))


def _assume(t, atom, value: bool):
    """t with every inner conditional on `atom` resolved (atom is known to be `value` where t is evaluated)"""
    if not isinstance(t, tuple) or not t:
        return t
    if t[0] == 'ite' and len(t) == 4:
        c = t[1]
        if c == atom:
            return _assume(t[2] if value else t[3], atom, value)
        if isinstance(c, tuple) and c and c[0] == 'not' and c[1] == atom:
            return _assume(t[3] if value else t[2], atom, value)
    if t[0] in ('table',):
        return t
    return tuple(_assume(x, atom, value) if isinstance(x, tuple) else x for x in t)


def mk_ite(c, a, b):
    if c == TRUE:
        return a
    if c == FALSE:
        return b
    # inside the then-branch the conjuncts of c hold, inside the else-branch of a single test it does not
    if isinstance(c, tuple) and c:
        pos = [x for x in c[1]] if c[0] == 'and' else [c]
        for x in pos:
            if isinstance(x, tuple) and x and x[0] == 'not':
                a = _assume(a, x[1], False)
            elif isinstance(x, tuple) and x and x[0] not in ('and', 'or', 'bf'):
                a = _assume(a, x, True)
        if c[0] not in ('and', 'or', 'bf', 'not'):
            b = _assume(b, c, False)
        if c[0] == 'bf':
            atoms_, bits_ = c[1], c[2]
            n_ = len(atoms_)
            for k_, at_ in enumerate(atoms_):
                vals_t = {bool((idx >> (n_ - 1 - k_)) & 1) for idx, bit in enumerate(bits_) if bit}
                vals_f = {bool((idx >> (n_ - 1 - k_)) & 1) for idx, bit in enumerate(bits_) if not bit}
                if len(vals_t) == 1:
                    a = _assume(a, at_, vals_t.pop())
                if len(vals_f) == 1:
                    b = _assume(b, at_, vals_f.pop())
    if a == b:
        return a
    if isinstance(c, tuple) and c and c[0] == 'not':
        # one polarity: `a if not c else b` is `b if c else a`
        return ('ite', c[1], b, a)
    if isinstance(c, tuple) and c and c[0] == 'bf' and len(c[1]) == 1 and tuple(c[2]) == (True, False):
        return ('ite', c[1][0], b, a)
    return ('ite', c, a, b)


def _num(t):
    if t[0] == 'lit' and t[1] in ('int', 'float'):
        return float(t[2])
    return None


def _empty_container(t) -> bool:
    return (t[0] == 'list' and not t[1]) or (t[0] == 'dict' and not t[1]) or \
        (t[0] == 'call' and t[1] in ('set', 'dict', 'list', 'tuple', 'frozenset') and not t[2])


def simp(t):
    """re-apply the constant folds after a substitution (bottom-up)."""
    if not isinstance(t, tuple) or not t or not isinstance(t[0], str):
        return t
    k = t[0]
    if k in ('const', 'lit', 'p', 'v', 'global'):
        return t
    if k in ('and', 'or'):
        xs = [simp(x) for x in t[1]]
        return mk_and(*xs) if k == 'and' else mk_or(*xs)
    if k == 'not':
        return mk_not(simp(t[1]))
    if k in ('table', 'bf', 'out'):
        return t
    t = tuple(simp(x) if isinstance(x, tuple) and x and isinstance(x[0], str) else x for x in t)
    if k == 'ite':
        return mk_ite(t[1], t[2], t[3])
    if k == 'len' and _empty_container(t[1]):
        return lit(0)
    if k == 'len' and t[1][0] == 'list':
        return lit(len(t[1][1]))
    if k in ('lt', 'le'):
        a, b = _num(t[1]), _num(t[2])
        if a is not None and b is not None:
            return TRUE if (a < b if k == 'lt' else a <= b) else FALSE
    if k == 'in' and _empty_container(t[2]):
        return FALSE
    if k == 'eq' and t[1][0] in ('const', 'lit') and t[2][0] in ('const', 'lit'):
        return TRUE if t[1] == t[2] else FALSE
    if (k == 'binop' and t[1] == 'Add' and (t[2][0] in ('list', 'filtermap', 'listcat') or t[3][0] in ('list', 'filtermap', 'listcat'))) \
            or k == 'listcat':
        return mk_listcat([simp(x) for x in t[1]] if k == 'listcat' else [t[2], t[3]])
    return t


def mk_listcat(xs):
    """list concatenation in one spelling: flattened, empty literals dropped (`[] + xs` is a copy of xs)"""
    parts = []
    for x in xs:
        if x[0] == 'listcat':
            parts.extend(x[1])
        elif x[0] == 'list' and len(x) == 2 and x[1] == ():
            continue
        else:
            parts.append(x)
    if not parts:
        return ('list', ())
    if len(parts) == 1:
        return parts[0]
    return ('listcat', tuple(parts))


def _is_strish(t) -> bool:
    return (t[0] == 'lit' and t[1] == 'str') or t[0] in ('concat', 'fstr') or \
        (t[0] == 'call' and t[1] == 'str') or (t[0] == 'str' and len(t) == 2)


def mk_concat(parts):
    """string building in one spelling: a + 'x' + str(b), f'{a}x{b}', 'x'.join([a, b]), '%sx%s' % (a, b) and
    '{}x{}'.format(a, b) all become ('concat', (a, 'x', b)); str() around a part is dropped (inside an f-string it is
    implicit), adjacent literals are merged."""
    import ast as _a
    flat = []
    for x in parts:
        if x[0] == 'concat':
            flat.extend(x[1])
        elif x[0] == 'fstr':
            flat.extend(x[1])
        elif x[0] == 'call' and x[1] == 'str' and len(x) > 2 and len(x[2]) == 1:
            flat.append(x[2][0])
        elif x[0] == 'str' and len(x) == 2:
            flat.append(x[1])
        else:
            flat.append(x)
    out = []
    for x in flat:
        if x[0] == 'lit' and x[1] == 'str':
            if _a.literal_eval(x[2]) == '':
                continue
            if out and out[-1][0] == 'lit' and out[-1][1] == 'str':
                out[-1] = lit(_a.literal_eval(out[-1][2]) + _a.literal_eval(x[2]))
                continue
        out.append(x)
    if not out:
        return lit('')
    if len(out) == 1 and out[0][0] == 'lit':
        return out[0]
    return ('concat', tuple(canon(x) for x in out))


def _self_extension(cur, val):
    """val is `cur` (or a copy of it) followed by new elements -> the new elements, else None"""
    def is_cur(t):
        if t == cur:
            return True
        return isinstance(t, tuple) and len(t) == 3 and t[0] == 'call' and t[1] in ('list', 'tuple') and len(t[2]) == 1 \
            and t[2][0] == cur
    if isinstance(val, tuple) and val and val[0] == 'binop' and val[1] == 'Add' and is_cur(val[2]) \
            and isinstance(val[3], tuple) and val[3] and val[3][0] == 'list' \
            and not any(isinstance(x, tuple) and x and x[0] == 'star' for x in val[3][1]):
        return list(val[3][1])
    if isinstance(val, tuple) and val and val[0] == 'listcat' and len(val[1]) == 2 and is_cur(val[1][0]) \
            and isinstance(val[1][1], tuple) and val[1][1] and val[1][1][0] == 'list' \
            and not any(isinstance(x, tuple) and x and x[0] == 'star' for x in val[1][1][1]):
        return list(val[1][1][1])
    if isinstance(val, tuple) and val and val[0] == 'list' and val[1] and isinstance(val[1][0], tuple) \
            and val[1][0] and val[1][0][0] == 'star' and is_cur(val[1][0][1]) \
            and not any(isinstance(x, tuple) and x and x[0] == 'star' for x in val[1][1:]):
        return list(val[1][1:])
    return None


def _find_ite(t):
    if not isinstance(t, tuple) or not t or not isinstance(t[0], str):
        return None
    if t[0] in ('table', 'bf', 'out', 'any', 'filtermap', 'first', 'dictcomp'):
        return None       # binders: the condition may mention the bound variable
    if t[0] == 'ite':
        return t
    for x in t[1:]:
        r = _find_ite(x)
        if r is not None:
            return r
    return None


def _subst(t, old, new):
    if t == old:
        return new
    if not isinstance(t, tuple) or not t:
        return t
    return tuple(_subst(x, old, new) if isinstance(x, tuple) else x for x in t)


def lift_ite(f, depth=0):
    """conditional values inside an atom are decided by the condition: A[ite(c,a,b)] == c&A[a] | ~c&A[b]"""
    if f in (TRUE, FALSE) or depth > 6:
        return f
    if f[0] in ('and', 'or'):
        xs = [lift_ite(x, depth) for x in f[1]]
        return mk_and(*xs) if f[0] == 'and' else mk_or(*xs)
    if f[0] == 'not':
        return mk_not(lift_ite(f[1], depth))
    if f[0] == 'bf':
        return f
    it = _find_ite(f)
    if it is None:
        return f
    c = it[1]
    fa = lift_ite(_truthy(simp(_subst(f, it, it[2]))), depth + 1)
    fb = lift_ite(_truthy(simp(_subst(f, it, it[3]))), depth + 1)
    return mk_or(mk_and(c, fa), mk_and(mk_not(c), fb))


def _truthy(t):
    if t[0] == 'const':
        return TRUE if t[1] else FALSE
    if t[0] == 'lit':
        return FALSE if t[2] in ('0', '0.0', "''") else TRUE
    if _empty_container(t):
        return FALSE
    return t


def _max_v(t):
    if not isinstance(t, tuple) or not t:
        return -1
    if t[0] == 'v' and len(t) == 2 and isinstance(t[1], int):
        return t[1]
    m = -1
    for x in t:
        if isinstance(x, tuple):
            k = _max_v(x)
            if k > m:
                m = k
    return m


def _fresh(bound):
    """next bound-variable level: one above every binder variable visible in the environment (independent of
    how many other names - e.g. parameters of an inlined helper - the environment holds)."""
    m = -1
    for v in bound.values():
        k = _max_v(v)
        if k > m:
            m = k
    return ('v', m + 1)


def _mentions(t, v) -> bool:
    if t == v:
        return True
    return isinstance(t, tuple) and any(_mentions(x, v) for x in t if isinstance(x, tuple))


def mk_any(coll, body):
    """EXISTS x in coll: body.   `any(x == a for x in C)` (also `x is a or x == a`) is membership `a in C`."""
    if body == FALSE:
        return FALSE
    if isinstance(coll, tuple) and coll and coll[0] == 'list' and 0 < len(coll[1]) <= 4:
        # a literal collection: the disjunction over its elements
        lv = _max_v(body)
        if lv >= 0:
            v = ('v', lv)
            return mk_or(*[lift_ite(_truthy(simp(_subst(body, v, el)))) for el in coll[1]])
    if isinstance(body, tuple) and body and body[0] == 'eq':
        lv = _max_v(body)
        if lv >= 0:
            v = ('v', lv)
            for a, b in ((body[1], body[2]), (body[2], body[1])):
                if a == v and not _mentions(b, v) and not _mentions(coll, v):
                    return ('in', b, coll)
    return ('any', coll, body)


def is_formula(t) -> bool:
    return t[0] in ('and', 'or', 'not', 'bf') or t in (TRUE, FALSE)


def atoms_of(t, acc):
    if t[0] in ('and', 'or'):
        for x in t[1]:
            atoms_of(x, acc)
    elif t[0] == 'not':
        atoms_of(t[1], acc)
    elif t in (TRUE, FALSE):
        pass
    elif t[0] == 'bf':
        for x in t[1]:
            atoms_of(x, acc)
    else:
        acc.add(t)


def ev(t, val) -> bool:
    if t == TRUE:
        return True
    if t == FALSE:
        return False
    if t[0] == 'and':
        return all(ev(x, val) for x in t[1])
    if t[0] == 'or':
        return any(ev(x, val) for x in t[1])
    if t[0] == 'not':
        return not ev(t[1], val)
    if t[0] == 'bf':
        idx = 0
        for a in t[1]:
            idx = idx * 2 + (1 if ev(a, val) else 0)
        return t[2][idx]
    return val[t]


def canon_bool(t):
    """canonical form of a boolean formula: ('bf', essential atoms sorted, truth table bits)."""
    acc = set()
    atoms_of(t, acc)
    atoms = sorted(acc, key=repr)
    if len(atoms) > MAX_ATOMS:
        raise Unsupported(f'{len(atoms)} atoms in one formula')
    rows = {}
    for bits in itertools.product((False, True), repeat=len(atoms)):
        rows[bits] = ev(t, dict(zip(atoms, bits)))
    # drop inessential atoms
    ess = []
    for i, a in enumerate(atoms):
        dep = False
        for bits, r in rows.items():
            if not bits[i]:
                b2 = bits[:i] + (True,) + bits[i + 1:]
                if rows[b2] != r:
                    dep = True
                    break
        if dep:
            ess.append(i)
    eatoms = tuple(atoms[i] for i in ess)
    table = []
    for bits in itertools.product((False, True), repeat=len(eatoms)):
        full = [False] * len(atoms)
        for j, i in enumerate(ess):
            full[i] = bits[j]
        table.append(rows[tuple(full)])
    if not eatoms:
        return TRUE if table[0] else FALSE
    if len(eatoms) == 1 and table == [False, True]:
        return eatoms[0]
    return ('bf', eatoms, tuple(table))


def canon(t):
    """canonicalise a value term (boolean formulas -> canonical truth tables)."""
    if is_formula(t):
        return canon_bool(t)
    return t


# ------------------------------------------------------------------------------------------ paths
class Path:
    def __init__(self):
        self.cond = TRUE
        self.env = {}         # local name -> term
        self.store = {}       # (base term, attr) -> term
        self.effects = []     # ordered: ('set', loc, value) ('call', name, args) ('foreach', ...) ('append', target, ...)
        self.ret = None       # term or None (fall off the end)
        self.done = False     # returned / raised
        self.raised = False

    def clone(self):
        p = Path()
        p.cond = self.cond
        p.env = dict(self.env)
        p.store = dict(self.store)
        p.effects = list(self.effects)
        p.ret = self.ret
        p.done = self.done
        p.raised = self.raised
        return p


IGNORED_CALL_BASES = {'logger', 'logging', 'print'}
CMP = {ast.Lt: 'lt', ast.LtE: 'le', ast.Gt: 'gt', ast.GtE: 'ge'}
FLIP = {'lt': 'gt', 'le': 'ge', 'gt': 'lt', 'ge': 'le'}


class Extractor:
    def __init__(self, fnode: ast.FunctionDef, inline=None, self_as_param=True, strip_copies=False):
        self.strip_copies = strip_copies
        self.fnode = fnode
        a = fnode.args
        self.params = [x.arg for x in a.posonlyargs + a.args]
        self.inline = inline or {}       # method name -> FunctionDef of a small pure method
        self.depth = 0
        self.local_defs = {}             # nested function definitions (closures over the enclosing scope)

    # ---------------------------------------------------------------- expressions
    def expr(self, e, p: Path, bound=None):
        bound = bound or {}
        if isinstance(e, ast.Constant):
            return lit(e.value)
        if isinstance(e, ast.Name):
            if e.id in bound:
                return bound[e.id]
            if e.id in p.env:
                return p.env[e.id]
            if e.id in self.params:
                return ('p', self.params.index(e.id))
            if e.id in ('True', 'False', 'None'):
                return ('const', {'True': True, 'False': False, 'None': None}[e.id])
            return ('global', e.id)
        if isinstance(e, ast.Attribute):
            base = self.expr(e.value, p, bound)
            loc = (base, e.attr)
            if loc in p.store:
                return p.store[loc]
            return ('attr', base, e.attr)
        if isinstance(e, ast.Subscript):
            base = self.expr(e.value, p, bound)
            if isinstance(e.slice, ast.Slice):
                if e.slice.lower is None and e.slice.upper is None and e.slice.step is None:
                    return base           # x[:] is a snapshot like list(x)
                return ('slice', base)
            return ('item', base, self.expr(e.slice, p, bound))
        if isinstance(e, ast.UnaryOp) and isinstance(e.op, ast.Not):
            return mk_not(self.truth(self.expr(e.operand, p, bound)))
        if isinstance(e, ast.UnaryOp) and isinstance(e.op, ast.USub) and isinstance(e.operand, ast.Constant):
            return lit(-e.operand.value)
        if isinstance(e, ast.BoolOp):
            vals = [self.truth(self.expr(v, p, bound)) for v in e.values]
            return mk_and(*vals) if isinstance(e.op, ast.And) else mk_or(*vals)
        if isinstance(e, ast.Compare):
            parts = []
            left = self.expr(e.left, p, bound)
            for op, rhs in zip(e.ops, e.comparators):
                right = self.expr(rhs, p, bound)
                parts.append(self.compare(op, left, right, rhs))
                left = right
            return mk_and(*parts)
        if isinstance(e, ast.IfExp):
            c = self.truth(self.expr(e.test, p, bound))
            a = self.expr(e.body, p, bound)
            b = self.expr(e.orelse, p, bound)
            if self.boolish(a) and self.boolish(b):
                return mk_or(mk_and(c, self.truth(a)), mk_and(mk_not(c), self.truth(b)))
            return mk_ite(canon(c), canon(a), canon(b))
        if isinstance(e, ast.Call):
            return self.call(e, p, bound)
        if isinstance(e, (ast.List, ast.Tuple)):
            return ('list', tuple(self.expr(x, p, bound) for x in e.elts))
        if isinstance(e, ast.Set):
            return ('set', tuple(sorted((canon(self.expr(x, p, bound)) for x in e.elts), key=repr)))
        if isinstance(e, ast.Dict):
            items = []
            for k, v in zip(e.keys, e.values):
                if k is None:
                    raise Unsupported('dict unpacking')
                items.append((canon(self.expr(k, p, bound)), canon(self.expr(v, p, bound))))
            return ('dict', tuple(sorted(items, key=repr)))
        if isinstance(e, (ast.ListComp, ast.GeneratorExp, ast.SetComp)):
            return self.comp(e, p, bound)
        if isinstance(e, ast.JoinedStr):
            parts = []
            for v in e.values:
                if isinstance(v, ast.Constant):
                    parts.append(lit(v.value))
                elif isinstance(v, ast.FormattedValue):
                    parts.append(canon(self.expr(v.value, p, bound)))
            return mk_concat(parts)
        if isinstance(e, ast.NamedExpr):
            v = self.expr(e.value, p, bound)
            p.env[e.target.id] = v
            return v
        if isinstance(e, ast.DictComp):
            b2 = dict(bound)
            gens = []
            for gen in e.generators:
                coll = self.expr(gen.iter, p, b2)
                v = _fresh(b2)
                self.bind(gen.target, v, b2)
                cond = mk_and(*[self.truth(self.expr(c, p, b2)) for c in gen.ifs])
                gens.append((canon(coll), canon(cond)))
            return ('dictcomp', tuple(gens), canon(self.expr(e.key, p, b2)), canon(self.expr(e.value, p, b2)))
        if isinstance(e, ast.Starred):
            return ('star', self.expr(e.value, p, bound))
        if isinstance(e, ast.Lambda):
            return ('lambda', ast.dump(e))
        if isinstance(e, ast.BinOp):
            l, r = self.expr(e.left, p, bound), self.expr(e.right, p, bound)
            if isinstance(e.op, ast.Add) and (_is_strish(l) or _is_strish(r)):
                return mk_concat([l, r])
            if isinstance(e.op, ast.Mod) and l[0] == 'lit' and l[1] == 'str':
                import ast as _a, re as _re
                tmpl = _a.literal_eval(l[2])
                argsr = list(r[1]) if r[0] == 'list' and isinstance(r[1], tuple) else [r]
                pieces = _re.split(r'(%[sd])', tmpl)
                if '%' not in ''.join(x for x in pieces if x not in ('%s', '%d')) \
                        and sum(1 for x in pieces if x in ('%s', '%d')) == len(argsr):
                    parts, k = [], 0
                    for x in pieces:
                        if x in ('%s', '%d'):
                            parts.append(argsr[k])
                            k += 1
                        elif x:
                            parts.append(lit(x))
                    return mk_concat(parts)
            if isinstance(e.op, ast.Add) and (l[0] in ('list', 'filtermap', 'listcat') or r[0] in ('list', 'filtermap', 'listcat')):
                # list concatenation in one spelling: flattened, empty literals dropped (`[] + xs` is a copy of xs)
                parts = []
                for x in (l, r):
                    if x[0] == 'listcat':
                        parts.extend(x[1])
                    elif x[0] == 'list' and len(x) == 2 and x[1] == ():
                        continue
                    else:
                        parts.append(x)
                if not parts:
                    return ('list', ())
                if len(parts) == 1:
                    return parts[0]
                return ('listcat', tuple(parts))
            if isinstance(e.op, ast.Add) and l[0] == 'lit' and r[0] == 'lit' and l[1] == 'str' and r[1] == 'str':
                import ast as _a
                return lit(_a.literal_eval(l[2]) + _a.literal_eval(r[2]))
            if isinstance(e.op, ast.Add) and l[0] == 'binop' and l[1] == 'Add' and l[3][0] == 'lit' \
                    and r[0] == 'lit' and l[3][1] == 'str' and r[1] == 'str':
                import ast as _a
                return ('binop', 'Add', l[2], lit(_a.literal_eval(l[3][2]) + _a.literal_eval(r[2])))
            return ('binop', type(e.op).__name__, l, r)
        raise Unsupported(f'expression {type(e).__name__}')

    def boolish(self, t):
        return is_formula(t) or t[0] in ('eq', 'lt', 'le', 'in', 'any', 'isinstance') or (
            t[0] == 'const' and isinstance(t[1], bool))

    def truth(self, t):
        """term used in boolean context."""
        if t[0] == 'const':
            return TRUE if t[1] else FALSE
        if t[0] == 'lit':
            return FALSE if t[2] in ('0', '0.0', "''") else TRUE
        if t[0] == 'first':
            return mk_any(t[1], t[2])      # the first match exists iff some element matches
        if t[0] == 'filtermap' and len(t) == 3 and len(t[1]) == 1:
            return mk_any(t[1][0][0], t[1][0][1])      # a filtered list is non-empty iff some element passes
        if t[0] == 'call' and t[1] == 'getattr' and len(t) > 2 and len(t[2]) == 3 and t[2][1][0] == 'lit' \
                and t[2][1][1] == 'str' and t[2][2] == ('const', None):
            # truth of getattr(x, 'f', None): the attribute exists and is truthy
            import ast as _a
            return mk_and(('call', 'hasattr', (t[2][0], t[2][1])),
                          self.truth(('attr', t[2][0], _a.literal_eval(t[2][1][2]))))
        if _empty_container(t):
            return FALSE
        if not is_formula(t) and _find_ite(t) is not None:
            return lift_ite(t)
        return t

    def compare(self, op, a, b, rhs_ast):
        if isinstance(op, (ast.Eq, ast.Is)):
            return self.eq(a, b)
        if isinstance(op, (ast.NotEq, ast.IsNot)):
            return mk_not(self.eq(a, b))
        if isinstance(op, (ast.In, ast.NotIn)):
            if b[0] == 'list' and (all(x[0] in ('const', 'lit') for x in b[1]) or (
                    0 < len(b[1]) <= 4 and isinstance(rhs_ast, (ast.Tuple, ast.List)) and not any(x[0] == 'star' for x in b[1]))):
                # membership in a small literal collection is a chain of equalities
                f = mk_or(*[self.eq(a, x) for x in b[1]])
            else:
                f = lift_ite(simp(('in', a, b)))
            return f if isinstance(op, ast.In) else mk_not(f)
        k = CMP.get(type(op))
        if k is None:
            raise Unsupported(f'comparison {type(op).__name__}')
        # canonical direction: lt / le only
        if k in ('gt', 'ge'):
            a, b, k = b, a, FLIP[k]
        # 0 < len(x) / 1 <= len(x): "x is not empty" is x ; len(x) < 1 / len(x) <= 0: not x
        if b[0] == 'len' and ((k == 'lt' and _num(a) == 0) or (k == 'le' and _num(a) == 1)):
            return self.truth(b[1])
        if a[0] == 'len' and ((k == 'lt' and _num(b) == 1) or (k == 'le' and _num(b) == 0)):
            return mk_not(self.truth(a[1]))
        # integers: a <= n  ==  a < n+1 (canonical: lt with the larger bound)
        nb = _num(b)
        if k == 'le' and nb is not None and b[1] == 'int' and a[0] == 'len':
            k, b = 'lt', lit(int(nb) + 1)
        na = _num(a)
        if k == 'lt' and na is not None and a[1] == 'int' and b[0] == 'len':
            # n < len  ==  not (len < n+1)
            return mk_not(lift_ite(simp(('lt', b, lit(int(na) + 1)))))
        return lift_ite(simp((k, a, b)))

    def eq(self, a, b):
        if a == b:
            return TRUE
        # len(x) == 0  is  "x is empty"  is  not x
        for x, y in ((a, b), (b, a)):
            if x[0] == 'len' and _num(y) == 0:
                return mk_not(self.truth(x[1]))
        # a conditional value compared with something: decided by the condition
        for x, y in ((a, b), (b, a)):
            if x[0] == 'ite' and not _find_ite(y):
                return mk_or(mk_and(x[1], self.eq(x[2], y)), mk_and(mk_not(x[1]), self.eq(x[3], y)))
        for x, y in ((a, b), (b, a)):
            if x[0] == 'first' and y == NONE:
                return mk_not(mk_any(x[1], x[2]))
        for x, y in ((a, b), (b, a)):
            # a freshly built string / container is never None
            if y == NONE and (x[0] in ('concat', 'list', 'dict', 'filtermap', 'listcat', 'dictcomp')
                              or (x[0] == 'lit' and x[1] == 'str') or _is_new(x)):
                return FALSE
        if a[0] in ('const', 'lit') and b[0] in ('const', 'lit'):
            if a[0] == 'lit' and b[0] == 'lit' and {a[1], b[1]} <= {'int', 'float'}:
                return TRUE if float(a[2]) == float(b[2]) else FALSE
            return TRUE if a == b else FALSE
        # x == True  ->  x ; x == False -> not x   (for boolean-valued x)
        for x, y in ((a, b), (b, a)):
            if y == TRUE and self.boolish(x):
                return self.truth(x)
            if y == FALSE and self.boolish(x):
                return mk_not(self.truth(x))
        if is_formula(a) or is_formula(b) or a[0] == 'any' or b[0] == 'any':
            # a boolean compared with a value: equal truth (labels and flags are booleans)
            fa, fb = self.truth(a), self.truth(b)
            return mk_or(mk_and(fa, fb), mk_and(mk_not(fa), mk_not(fb)))
        x, y = sorted((a, b), key=repr)
        if _find_ite(x) is not None or _find_ite(y) is not None:
            # a conditional value deeper inside a compared term (`d.get(k)['f'] is None`): decided by its condition
            return lift_ite(('eq', x, y))
        return ('eq', x, y)

    def call(self, e: ast.Call, p: Path, bound):
        fn = e.func
        if isinstance(fn, ast.Name) and fn.id == 'filter' and len(e.args) == 2 and isinstance(e.args[0], ast.Lambda) \
                and len(e.args[0].args.args) == 1:
            lam = e.args[0]
            coll = self.expr(e.args[1], p, bound)
            b2 = dict(bound)
            v = _fresh(b2)
            b2[lam.args.args[0].arg] = v
            cond = self.truth(self.expr(lam.body, p, b2))
            return ('filtermap', ((canon(coll), canon(cond)),), v)
        args = [self.expr(a, p, bound) for a in e.args]
        if isinstance(fn, ast.Name):
            n = fn.id
            if n == 'map' and len(e.args) == 2 and not e.keywords and isinstance(e.args[0], (ast.Attribute, ast.Name)):
                # map(f, xs) is [f(x) for x in xs] (consumed once, in order, by every caller in this package)
                lc = ast.ListComp(elt=ast.Call(func=e.args[0], args=[ast.Name(id='__m', ctx=ast.Load())], keywords=[]),
                                  generators=[ast.comprehension(target=ast.Name(id='__m', ctx=ast.Store()), iter=e.args[1],
                                                                ifs=[], is_async=0)])
                ast.copy_location(lc, e)
                ast.fix_missing_locations(lc)
                return self.comp(lc, p, bound)
            if n == 'bool' and len(args) == 1:
                return self.truth(args[0])
            if not args and not e.keywords and n in ('list', 'tuple'):
                return ('list', ())
            if not args and not e.keywords and n == 'dict':
                return ('dict', ())
            if n == 'len' and len(args) == 1:
                a0 = args[0]
                if a0[0] == 'call' and a0[1] == 'list' and len(a0) > 2 and len(a0[2]) == 1:
                    a0 = a0[2][0]
                if a0[0] == 'filtermap' and len(a0[1]) == 1:
                    # len([.. for x in C if cond]) counts the elements of C that satisfy cond
                    return ('count', a0[1][0][0], a0[1][0][1])
                return ('len', args[0])
            if n == 'sum' and len(args) == 1 and args[0][0] == 'filtermap' and len(args[0][1]) == 1:
                (coll, cond), elt = args[0][1][0], args[0][2]
                if elt == ('lit', 'int', '1'):
                    return ('count', coll, cond)
                if _boolish(elt):
                    # sum(cond(x) for x in C): True counts as 1
                    return ('count', coll, canon(mk_and(cond, self.truth(elt))))
            if n == 'getattr' and len(args) == 2 and args[1][0] == 'lit' and args[1][1] == 'str':
                import ast as _a
                name = _a.literal_eval(args[1][2])
                loc = (args[0], name)
                if loc in p.store:
                    return p.store[loc]
                return ('attr', args[0], name)
            if n == 'isinstance' and len(e.args) == 2:
                return ('isinstance', args[0], ast.unparse(e.args[1]))
            if n == 'next' and len(e.args) == 2 and isinstance(e.args[0], (ast.GeneratorExp, ast.ListComp)) \
                    and isinstance(e.args[1], ast.Constant) and e.args[1].value is None \
                    and len(e.args[0].generators) == 1:
                g = e.args[0]
                gen = g.generators[0]
                if isinstance(gen.target, ast.Name) and isinstance(g.elt, ast.Name) and g.elt.id == gen.target.id:
                    coll = self.expr(gen.iter, p, bound)
                    v = _fresh(bound)
                    b2 = dict(bound)
                    b2[gen.target.id] = v
                    cond = mk_and(*[self.truth(self.expr(c, p, b2)) for c in gen.ifs])
                    return ('first', canon(coll), canon(cond))
            if n in ('any', 'all') and len(e.args) == 1 and isinstance(e.args[0], (ast.GeneratorExp, ast.ListComp)):
                g = e.args[0]
                if len(g.generators) != 1:
                    raise Unsupported('nested generator in any/all')
                gen = g.generators[0]
                coll = self.expr(gen.iter, p, bound)
                v = _fresh(bound)
                b2 = dict(bound)
                self.bind(gen.target, v, b2)
                body = self.truth(self.expr(g.elt, p, b2))
                for c in gen.ifs:
                    cf = self.truth(self.expr(c, p, b2))
                    body = mk_and(cf, body) if n == 'any' else mk_or(mk_not(cf), body)
                if n == 'any':
                    return mk_any(coll, canon(body))
                return mk_not(mk_any(coll, canon(mk_not(body))))
            if n in ('list', 'tuple') and len(args) == 1:
                return args[0]
            if self.strip_copies and n in ('dict', 'set', 'sorted') and len(args) == 1:
                return args[0]
            if n in ('str', 'float', 'int') and len(args) == 1:
                return (n, args[0])
            fd = self.inline.get(n)
            if fd is not None:
                v = self.inline_value(fd, args, p)
                if v is not None:
                    return v
            kw = tuple(sorted((k.arg or '**', canon(self.expr(k.value, p, bound)) if k.arg else ('starkw', canon(self.expr(k.value, p, bound)))) for k in e.keywords))
            return ('call', n, tuple(canon(a) for a in args) + kw)
        if isinstance(fn, ast.Attribute):
            if isinstance(fn.value, ast.Name) and fn.value.id in IGNORED_CALL_BASES:
                return ('opaque-log',)
            if self.strip_copies and isinstance(fn.value, ast.Name) and fn.value.id == 'copy' \
                    and fn.attr in ('copy', 'deepcopy') and args:
                return args[0]
            recv = self.expr(fn.value, p, bound)
            if self.strip_copies and fn.attr == 'copy' and not args:
                return recv
            if fn.attr == 'join' and recv[0] == 'lit' and recv[1] == 'str' and len(args) == 1 and not e.keywords \
                    and args[0][0] == 'list':
                parts = []
                for k_, a_ in enumerate(args[0][1]):
                    if k_:
                        parts.append(recv)
                    parts.append(a_)
                return mk_concat(parts)
            if fn.attr == 'format' and recv[0] == 'lit' and recv[1] == 'str' and not e.keywords:
                import ast as _a, re as _re
                pieces = _re.split(r'(\{\})', _a.literal_eval(recv[2]))
                if sum(1 for x in pieces if x == '{}') == len(args) \
                        and not any('{' in x or '}' in x for x in pieces if x != '{}'):
                    parts, k_ = [], 0
                    for x in pieces:
                        if x == '{}':
                            parts.append(args[k_])
                            k_ += 1
                        elif x:
                            parts.append(lit(x))
                    return mk_concat(parts)
            if fn.attr == 'get' and len(args) in (1, 2) and not e.keywords and fn.attr not in self.inline:
                # d.get(k, default)  ==  d[k] if k in d else default
                return mk_ite(('in', args[0], recv), ('item', recv, args[0]), args[1] if len(args) == 2 else NONE)
            m = self.inline.get(fn.attr)
            if m is not None:
                v = self.inline_value(m, [recv] + args, p)
                if v is not None:
                    return v
            kw = tuple(sorted((k.arg or '**', canon(self.expr(k.value, p, bound)) if k.arg else ('starkw', canon(self.expr(k.value, p, bound)))) for k in e.keywords))
            return ('mcall', fn.attr, recv, tuple(canon(a) for a in args) + kw)
        callee = self.expr(fn, p, bound)
        kw = tuple(sorted((k.arg or '**', canon(self.expr(k.value, p, bound)) if k.arg else ('starkw', canon(self.expr(k.value, p, bound)))) for k in e.keywords))
        return ('apply', canon(callee), tuple(canon(a) for a in args), kw)

    def bind(self, target, term, bound):
        if isinstance(target, ast.Name):
            bound[target.id] = term
        elif isinstance(target, (ast.Tuple, ast.List)):
            for i, el in enumerate(target.elts):
                self.bind(el, ('item', term, lit(i)), bound)
        else:
            raise Unsupported('loop target')

    def comp(self, e, p, bound):
        """[elt for v in C if cond] (one or two generators) -> ('filtermap', ...)"""
        b2 = dict(bound)
        gens = []
        for gen in e.generators:
            coll = self.expr(gen.iter, p, b2)
            v = _fresh(b2)
            self.bind(gen.target, v, b2)
            cond = mk_and(*[self.truth(self.expr(c, p, b2)) for c in gen.ifs])
            gens.append((coll, canon(cond)))
        elt = self.expr(e.elt, p, b2)
        return ('filtermap', tuple(gens), canon(elt))

    # ---------------------------------------------------------------- statements
    def run(self, bound=None, store=None):
        p = Path()
        if store is not None:
            p.store = dict(store)
        paths = self.block(self.fnode.body, [p], dict(bound or {}))
        return paths

    def inline_value(self, fdef, argterms, p: Path):
        """value of a call to a small effect-free helper (method or function), or None."""
        if self.depth >= 3 or fdef is self.fnode:
            return None
        sub = Extractor(fdef, self.inline, strip_copies=self.strip_copies)
        sub._parent = self
        sub.depth = self.depth + 1
        names = [x.arg for x in fdef.args.posonlyargs + fdef.args.args]
        if len(names) < len(argterms):
            return None
        b = dict(zip(names, argterms))
        try:
            paths = sub.run(b, p.store)
        except Unsupported:
            return None
        if any(q.effects for q in paths) or any(q.ret is None for q in paths):
            return None
        if len(paths) == 1:
            return paths[0].ret
        if all(self.boolish(q.ret) or q.ret in (TRUE, FALSE) for q in paths):
            return mk_or(*[mk_and(q.cond, self.truth(q.ret)) for q in paths])
        return None

    def block(self, stmts, paths, bound):
        i = 0
        while i < len(stmts):
            st = stmts[i]
            # fold idiom:  X = c ; for v in C: X = X op f(v)
            if i + 1 < len(stmts) and self.is_fold(st, stmts[i + 1]):
                paths = [self.fold(st, stmts[i + 1], p, bound) if not p.done else p for p in paths]
                i += 2
                continue
            # iterator idiom:  x = next(IT, None) ; while x: BODY ; x = next(IT, None)   ==   for x in IT: BODY
            # (elements are records / objects, never falsy)
            if i + 1 < len(stmts) and self._next_loop(st, stmts[i + 1]):
                w = stmts[i + 1]
                st = ast.For(target=ast.Name(id=st.targets[0].id, ctx=ast.Store()), iter=st.value.args[0],
                             body=w.body[:-1] or [ast.Pass()], orelse=[], lineno=w.lineno, col_offset=0)
                i += 1
            new = []
            for p in paths:
                if p.done:
                    new.append(p)
                else:
                    new.extend(self.stmt(st, p, bound))
            paths = new
            i += 1
        return paths

    @staticmethod
    def _next_loop(a, w) -> bool:
        def is_next(st):
            return isinstance(st, ast.Assign) and len(st.targets) == 1 and isinstance(st.targets[0], ast.Name) \
                and isinstance(st.value, ast.Call) and isinstance(st.value.func, ast.Name) \
                and st.value.func.id == 'next' and len(st.value.args) == 2 \
                and isinstance(st.value.args[1], ast.Constant) and st.value.args[1].value is None
        if not (is_next(a) and isinstance(w, ast.While) and not w.orelse and w.body and is_next(w.body[-1])):
            return False
        x = a.targets[0].id
        return isinstance(w.test, ast.Name) and w.test.id == x and w.body[-1].targets[0].id == x \
            and ast.dump(w.body[-1].value.args[0]) == ast.dump(a.value.args[0]) \
            and not any(isinstance(n, (ast.Break, ast.Continue)) for s_ in w.body for n in ast.walk(s_))

    @staticmethod
    def _target_key(t):
        return ast.dump(t)

    def is_fold(self, a, b):
        if not (isinstance(a, ast.Assign) and len(a.targets) == 1 and isinstance(a.value, ast.Constant)
                and isinstance(a.value.value, bool) and isinstance(b, ast.For) and not b.orelse):
            return False
        body = [s for s in b.body if not self.ignorable(s)]
        if len(body) != 1 or not isinstance(body[0], ast.Assign) or len(body[0].targets) != 1:
            return False
        tgt = a.targets[0]
        if self._target_key(body[0].targets[0]) != self._target_key(tgt):
            return False
        v = body[0].value
        if not isinstance(v, ast.BoolOp) or len(v.values) < 2:
            return False
        # first operand is the accumulator itself (as a load)
        acc = v.values[0]
        return ast.dump(acc).replace('Store()', 'Load()') == ast.dump(tgt).replace('Store()', 'Load()')

    def fold(self, a, loop, p: Path, bound):
        init = a.value.value
        v = loop.body
        body = [s for s in v if not self.ignorable(s)][0]
        op = body.value.op
        coll = self.expr(loop.iter, p, bound)
        b2 = dict(bound)
        var = _fresh(b2)
        self.bind(loop.target, var, b2)
        rest = [self.truth(self.expr(x, p, b2)) for x in body.value.values[1:]]
        if isinstance(op, ast.Or):
            f = mk_or(*rest)
            val = TRUE if init else mk_any(coll, canon(f))
        else:
            f = mk_and(*rest)
            val = FALSE if not init else mk_not(mk_any(coll, canon(mk_not(f))))
        self.assign(a.targets[0], val, p, bound)
        return p

    def ignorable(self, st) -> bool:
        if isinstance(st, ast.Expr):
            v = st.value
            if isinstance(v, ast.Constant):
                return True
            if isinstance(v, ast.Call) and isinstance(v.func, ast.Attribute) and isinstance(v.func.value, ast.Name) \
                    and v.func.value.id in IGNORED_CALL_BASES:
                return True
        if isinstance(st, (ast.Assert, ast.Pass)):
            return True
        return False

    # ---------------------------------------------------------------- locally created containers
    @staticmethod
    def _is_container_literal(v) -> bool:
        if isinstance(v, ast.Dict):
            return all(k is not None for k in v.keys)
        if isinstance(v, ast.List) and not v.elts:
            return True
        return isinstance(v, ast.Call) and isinstance(v.func, ast.Name) and v.func.id in ('dict', 'list') \
            and not v.args and not v.keywords

    def _allocates(self, st) -> bool:
        tg = st.targets[0] if isinstance(st, ast.Assign) else st.target
        if isinstance(st, ast.Assign) and len(st.targets) != 1:
            return False
        return isinstance(tg, ast.Name) and self._is_container_literal(st.value)

    def alloc(self, v, p: Path, bound, name=None):
        """a dict literal / empty list bound to a local is an OBJECT: its content is a set of writes.  Where the
        object ends up (stored under a key / attribute of something else) becomes its name when the path is
        summarised (see resolve_fresh): building then attaching == attaching then building."""
        root = self
        while getattr(root, '_parent', None) is not None:
            root = root._parent
        root._new = getattr(root, '_new', 0) + 1
        o = name if name is not None else ('new', root._new)
        if isinstance(v, ast.Dict):
            p.effects.append(('mk', o, 'dict'))
            for k, val in zip(v.keys, v.values):
                K = canon(self.expr(k, p, bound))
                if isinstance(val, ast.Dict) and all(x is not None for x in val.keys):
                    self.alloc(val, p, bound, ('item', o, K))
                else:
                    p.effects.append(('setitem', o, K, canon(self.expr(val, p, bound))))
        else:
            kind = 'list' if isinstance(v, ast.List) or v.func.id == 'list' else 'dict'
            p.effects.append(('mk', o, kind))
        return o

    def assign(self, target, val, p: Path, bound):
        if isinstance(target, ast.Name):
            p.env[target.id] = val
        elif isinstance(target, ast.Attribute):
            base = self.expr(target.value, p, bound)
            # x.f = list(x.f) + [a] / x.f = [*x.f, a] / x.f = x.f + [a]: the old content plus new elements - one
            # spelling with the copy-append-assign idiom and with x.f.append(a)
            cur = p.store.get((base, target.attr), ('attr', base, target.attr))
            added = _self_extension(cur, val)
            if added is not None:
                for a_ in added:
                    p.effects.append(('append', canon(cur), canon(a_)))
                return
            p.store[(base, target.attr)] = val
            p.effects.append(('set', (base, target.attr), val))
        elif isinstance(target, (ast.Tuple, ast.List)):
            for i, el in enumerate(target.elts):
                if val[0] == 'list' and len(val[1]) == len(target.elts):
                    self.assign(el, val[1][i], p, bound)        # a, b = x, y
                else:
                    self.assign(el, ('item', val, lit(i)), p, bound)
        elif isinstance(target, ast.Subscript):
            base = self.expr(target.value, p, bound)
            key = self.expr(target.slice, p, bound)
            p.effects.append(('setitem', canon(base), canon(key), canon(val)))
        else:
            raise Unsupported('assignment target')

    def stmt(self, st, p: Path, bound):
        if self.ignorable(st):
            return [p]
        if isinstance(st, ast.If):
            # `if logger.isEnabledFor(...)`: logging only
            if 'isEnabledFor' in ast.unparse(st.test) and all(self.ignorable(s) for s in st.body):
                return [p]
            c = self.truth(self.expr(st.test, p, bound))
            pt, pf = p.clone(), p.clone()
            pt.cond = mk_and(p.cond, c)
            pf.cond = mk_and(p.cond, mk_not(c))
            out = self.block(st.body, [pt], bound)
            out += self.block(st.orelse, [pf], bound) if st.orelse else [pf]
            return out
        if isinstance(st, ast.Match):
            subj = self.expr(st.subject, p, bound)
            out = []
            rest = p
            for case in st.cases:
                pat = case.pattern
                c = self.pattern(pat, subj)
                if case.guard is not None:
                    c = mk_and(c, self.truth(self.expr(case.guard, rest, bound)))
                pt = rest.clone()
                pt.cond = mk_and(rest.cond, c)
                out += self.block(case.body, [pt], bound)
                nxt = rest.clone()
                nxt.cond = mk_and(rest.cond, mk_not(c))
                rest = nxt
            out.append(rest)
            return out
        if isinstance(st, ast.Return):
            if st.value is not None and self.depth > 0 and self._is_container_literal(st.value):
                # a helper that builds and returns a container: the caller goes on filling THAT object
                p.ret = self.alloc(st.value, p, bound)
                p.done = True
                return [p]
            p.ret = self.expr(st.value, p, bound) if st.value is not None else NONE
            p.done = True
            return [p]
        if isinstance(st, ast.Raise):
            p.ret = ('raise',)
            p.done = True
            p.raised = True
            return [p]
        if isinstance(st, (ast.Assign, ast.AnnAssign)) and st.value is not None and self._allocates(st):
            tg = st.targets[0] if isinstance(st, ast.Assign) else st.target
            p.env[tg.id] = self.alloc(st.value, p, bound)
            return [p]
        if isinstance(st, ast.Assign):
            sp = self.inline_effectful(st.value, p, bound)
            if sp is not None:
                out = []
                for q, rv in sp:
                    for t in st.targets:
                        self.assign(t, rv if rv is not None else NONE, q, bound)
                    out.append(q)
                return out
            val = self.expr(st.value, p, bound)
            for t in st.targets:
                self.assign(t, val, p, bound)
            return [p]
        if isinstance(st, ast.AnnAssign) and st.value is not None:
            self.assign(st.target, self.expr(st.value, p, bound), p, bound)
            return [p]
        if isinstance(st, ast.Expr) and isinstance(st.value, ast.Call):
            return self.call_stmt(st.value, p, bound)
        if isinstance(st, ast.For):
            return self.loop(st, p, bound)
        if isinstance(st, (ast.FunctionDef,)):
            self.local_defs[st.name] = st
            return [p]
        if isinstance(st, ast.Try):
            # try: x = next(gen)  except StopIteration: H     ==   x = next(gen, None); if x is None: H
            if len(st.body) == 1 and isinstance(st.body[0], ast.Assign) and len(st.handlers) == 1 \
                    and not st.orelse and not st.finalbody:
                a = st.body[0]
                h = st.handlers[0]
                v = a.value
                if isinstance(v, ast.Call) and isinstance(v.func, ast.Name) and v.func.id == 'next' \
                        and len(v.args) == 1 and h.type is not None and 'StopIteration' in ast.unparse(h.type):
                    val = self.expr(ast.Call(func=v.func, args=[v.args[0], ast.Constant(value=None)], keywords=[]),
                                    p, bound)
                    for t in a.targets:
                        self.assign(t, val, p, bound)
                    c = self.eq(val, NONE)
                    pt, pf = p.clone(), p.clone()
                    pt.cond = mk_and(p.cond, c)
                    pf.cond = mk_and(p.cond, mk_not(c))
                    return self.block(h.body, [pt], bound) + [pf]
            raise Unsupported('try statement')
        if isinstance(st, ast.Delete):
            for t in st.targets:
                if isinstance(t, ast.Subscript):
                    p.effects.append(('delitem', canon(self.expr(t.value, p, bound)), canon(self.expr(t.slice, p, bound))))
                else:
                    raise Unsupported('del target')
            return [p]
        if isinstance(st, ast.AugAssign) and isinstance(st.op, ast.Add) \
                and not (isinstance(st.value, ast.Constant) and isinstance(st.value.value, (int, float, str))) \
                and not isinstance(st.value, (ast.BinOp, ast.JoinedStr)):
            cur0 = self.expr(st.target, p, bound)
            v0 = self.expr(st.value, p, bound)
            listy = (isinstance(st.target, (ast.Subscript, ast.Attribute)) and not _is_strish(v0) and v0[0] not in ('lit', 'len', 'count')) \
                or _is_new(cur0) or cur0[0] in ('list',)
            if listy and v0[0] not in ('lit',):
                # `xs += ys` on a list is `xs.extend(ys)`: in place, the object stays the same
                p.effects.append(('extend', canon(cur0), canon(v0)))
                return [p]
        if isinstance(st, ast.AugAssign):
            cur = self.expr(st.target, p, bound)
            val = ('binop', type(st.op).__name__, cur, self.expr(st.value, p, bound))
            self.assign(st.target, val, p, bound)
            return [p]
        if isinstance(st, ast.With):
            for it in st.items:
                v = self.expr(it.context_expr, p, bound)
                if it.optional_vars is not None:
                    self.assign(it.optional_vars, ('with', canon(v)), p, bound)
            return self.block(st.body, [p], bound)
        if isinstance(st, ast.While):
            return self.while_loop(st, p, bound)
        if isinstance(st, ast.Pass):
            return [p]
        if isinstance(st, ast.Continue):
            p.effects.append(('continue',))
            p.done = True
            return [p]
        if isinstance(st, ast.Break):
            # leaves the loop: kept in the row's outcome (a `break` where the specification has `continue` is a
            # different table), not interpreted any further
            p.effects.append(('break',))
            p.done = True
            return [p]
        raise Unsupported(f'statement {type(st).__name__}')

    def pattern(self, pat, subj):
        if isinstance(pat, ast.MatchValue):
            return self.eq(subj, lit(pat.value.value)) if isinstance(pat.value, ast.Constant) \
                else self.eq(subj, ('opaque', ast.unparse(pat.value)))
        if isinstance(pat, ast.MatchOr):
            return mk_or(*[self.pattern(x, subj) for x in pat.patterns])
        if isinstance(pat, ast.MatchAs) and pat.pattern is None:
            return TRUE
        raise Unsupported('match pattern')

    def inline_effectful(self, c, p: Path, bound):
        """call to a nested (closure) function: -> list of (path, return term) or None."""
        eff = getattr(self, 'eff_inline', {})
        if not (isinstance(c, ast.Call) and isinstance(c.func, ast.Name)
                and (c.func.id in self.local_defs or c.func.id in eff)):
            return None
        if self.depth >= 4:
            raise Unsupported('nested inlining depth')
        fd = self.local_defs.get(c.func.id) or eff[c.func.id]
        if fd is self.fnode:
            return None
        names = [x.arg for x in fd.args.posonlyargs + fd.args.args]
        b2 = dict(bound)
        # closure: the nested function sees the enclosing locals - except the names it binds itself
        own = {x.id for x in ast.walk(fd) if isinstance(x, ast.Name) and isinstance(x.ctx, ast.Store)}
        for k in own:
            b2.pop(k, None)
        for k, v in p.env.items():
            if k not in own:
                b2.setdefault(k, v)
        for nm, a in zip(names, c.args):
            b2[nm] = self.expr(a, p, bound)
        sub = Extractor(fd, self.inline, strip_copies=self.strip_copies)
        sub._parent = self
        sub.eff_inline = eff
        sub.params = self.params            # free names that are parameters of the outer function
        sub.depth = self.depth + 1
        sub.local_defs = dict(self.local_defs)
        start = p.clone()
        start.env = {}
        paths = sub.block(fd.body, [start], b2)
        out = []
        for q in paths:
            rv = q.ret
            q.ret = None
            q.done = False
            q.env = dict(p.env)
            if q.raised:
                q.ret = ('raise',)
                q.done = True
            out.append((q, rv))
        return out

    def call_stmt(self, c: ast.Call, p: Path, bound):
        sp = self.inline_effectful(c, p, bound)
        if sp is not None:
            return [q for q, _ in sp]
        fn = c.func
        if isinstance(fn, ast.Attribute) and fn.attr in ('append', 'add') and len(c.args) == 1:
            tgt = self.expr(fn.value, p, bound)
            p.effects.append(('append', canon(tgt), canon(self.expr(c.args[0], p, bound))))
            return [p]
        if isinstance(fn, ast.Attribute) and fn.attr == 'remove' and len(c.args) == 1 and not c.keywords \
                and fn.attr not in self.inline:
            # L.remove(x) is `del L[L.index(x)]` (first occurrence; ValueError when absent in both spellings)
            tgt = canon(self.expr(fn.value, p, bound))
            arg = canon(self.expr(c.args[0], p, bound))
            p.effects.append(('delitem', tgt, ('mcall', 'index', tgt, (arg,))))
            return [p]
        if isinstance(fn, ast.Attribute) and fn.attr == 'pop' and len(c.args) == 1 and not c.keywords:
            # statement-level d.pop(k): same as del d[k]
            p.effects.append(('delitem', canon(self.expr(fn.value, p, bound)), canon(self.expr(c.args[0], p, bound))))
            return [p]
        if isinstance(fn, ast.Attribute) and fn.attr == 'extend' and len(c.args) == 1:
            tgt = self.expr(fn.value, p, bound)
            p.effects.append(('extend', canon(tgt), canon(self.expr(c.args[0], p, bound))))
            return [p]
        if isinstance(fn, ast.Name) and fn.id in self.inline and self.inline[fn.id] is not self.fnode \
                and self.depth < 3:
            fd = self.inline[fn.id]
            sub = Extractor(fd, self.inline)
            sub._parent = self
            sub.depth = self.depth + 1
            names = [x.arg for x in fd.args.posonlyargs + fd.args.args]
            try:
                sp = sub.run(dict(zip(names, [self.expr(a, p, bound) for a in c.args])), p.store)
            except Unsupported:
                sp = None
            if sp is not None and len(sp) == 1 and sp[0].ret in (None, NONE) \
                    and all(e[0] == 'do' for e in sp[0].effects):
                p.effects.extend(sp[0].effects)
                return [p]
        t = self.expr(c, p, bound)
        if t[0] in ('opaque-log',):
            return [p]
        p.effects.append(('do', canon(t)))
        return [p]

    def while_loop(self, st: ast.While, p: Path, bound):
        """`while cond: body` -> ('while', cond, body table).  The body is summarised once with the
        loop-carried locals replaced by opaque loop variables (('w', name)): a canonical form, good for
        equality with a reference written the same way, not a semantics of iteration."""
        if st.orelse:
            raise Unsupported('while-else')
        carried = set()
        for n in ast.walk(st):
            if isinstance(n, ast.Name) and isinstance(n.ctx, ast.Store):
                carried.add(n.id)
            if isinstance(n, ast.Call) and isinstance(n.func, ast.Attribute) and isinstance(n.func.value, ast.Name) \
                    and n.func.attr in ('append', 'extend', 'pop', 'add', 'remove', 'insert', 'update'):
                carried.add(n.func.value.id)
        sub = Path()
        sub.env = dict(p.env)
        sub.store = dict(p.store)
        init = tuple(sorted((nm, canon(p.env[nm])) for nm in carried if nm in p.env))
        for nm in carried:
            sub.env[nm] = ('w', nm)
        cond = self.truth(self.expr(st.test, sub, bound))
        subpaths = self.block([s for s in st.body if not self.ignorable(s)], [sub], bound)
        # rename carried locals canonically (by order of first appearance in the sorted init list)
        table = canonical_table(subpaths, drop_env=True)
        finals = []
        for q in subpaths:
            finals.append(tuple(sorted((nm, canon(q.env.get(nm, ('w', nm)))) for nm in carried)))
        # the loop-carried locals get position names (w0, w1, .. by first use in the condition, then in the body): the
        # programmer's names for them are not part of what the loop does
        order = []

        def scan(t):
            if isinstance(t, tuple):
                if len(t) == 2 and t[0] == 'w' and isinstance(t[1], str):
                    if t[1] not in order:
                        order.append(t[1])
                    return
                for x in t:
                    scan(x)
        scan(canon(cond))
        scan(table)
        rest = sorted((nm for nm in carried if nm not in order), key=lambda nm: repr(canon(p.env[nm])) if nm in p.env else '~' + nm)
        # locals that are only written (temporaries of the body) carry nothing in and are not read after: dropped
        rest = [nm for nm in rest if nm in p.env]
        names = {nm: f'w{k}' for k, nm in enumerate(order + rest)}

        def ren(t):
            if isinstance(t, tuple):
                if len(t) == 2 and t[0] == 'w' and isinstance(t[1], str):
                    return ('w', names.get(t[1], t[1]))
                new = tuple(ren(x) for x in t)
                if new and new[0] == 'table' and new != t:
                    return recanon_table(new)
                return new
            return t
        init = tuple(sorted((names[nm], v) for nm, v in init if nm in names))
        finals2 = set()
        for fin in finals:
            finals2.add(tuple(sorted((names[nm], ren(v)) for nm, v in fin if nm in names)))
        p.effects.append(('while', init, ren(canon(cond)), ren(table), tuple(sorted(finals2, key=repr))))
        for nm in carried:
            p.env[nm] = ('after-while', names.get(nm, nm), 0)
        return [p]

    def loop(self, st: ast.For, p: Path, bound):
        if st.orelse:
            raise Unsupported('for-else')
        it = st.iter
        guard = None
        if isinstance(it, ast.Call) and isinstance(it.func, ast.Name) and it.func.id == 'filter' \
                and len(it.args) == 2 and isinstance(it.args[0], ast.Lambda) and len(it.args[0].args.args) == 1:
            guard = it.args[0]
            it = it.args[1]
        coll = self.expr(it, p, bound)
        if coll[0] == 'list' and 0 < len(coll[1]) <= 4 and guard is None \
                and not any(isinstance(n_, (ast.Break, ast.Continue)) for s_ in st.body for n_ in ast.walk(s_)):
            # for x in (a, b): body   ==   body[x:=a]; body[x:=b]
            paths = [p]
            for el in coll[1]:
                new = []
                for q in paths:
                    if q.done:
                        new.append(q)
                        continue
                    b3 = dict(bound)
                    self.bind(st.target, el, b3)
                    new.extend(self.block(st.body, [q], b3))
                paths = new
            return paths
        b2 = dict(bound)
        var = _fresh(b2)
        self.bind(st.target, var, b2)
        body = [s for s in st.body if not self.ignorable(s)]
        pre_guard = None
        if coll[0] == 'filtermap' and len(coll[1]) == 1 and coll[2] == _fresh(bound):
            # for x in [y for y in C if c(y)]: body   ==   for x in C: if c(x): body
            # (the comprehension variable and the loop variable get the same de Bruijn level)
            pre_guard = coll[1][0][1]
            coll = coll[1][0][0]
        if guard is not None:
            # for x in filter(lambda y: c(y), C): body   ==   for x in C: if c(x): body
            b2[guard.args.args[0].arg] = var
            body = [ast.If(test=guard.body, body=body, orelse=[])]
        # early-exit search: every path of the body either returns a constant or has no effect
        sub = Path()
        sub.env = dict(p.env)
        sub.store = dict(p.store)
        # locals assigned in the body: a read before the assignment sees the previous iteration's value
        stored = set()
        for s_ in st.body:
            for n_ in ast.walk(s_):
                if isinstance(n_, ast.Name) and isinstance(n_.ctx, ast.Store):
                    stored.add(n_.id)
        tnames = {n_.id for n_ in ast.walk(st.target) if isinstance(n_, ast.Name)}
        for nm in stored - tnames:
            sub.env[nm] = ('carried', nm)
        if pre_guard is not None:
            skip = sub.clone()
            skip.cond = mk_not(pre_guard) if is_formula(pre_guard) or True else skip.cond
            sub.cond = pre_guard
            subpaths = self.block(body, [sub], b2) + [skip]
        else:
            subpaths = self.block(body, [sub], b2)
        returning = [q for q in subpaths if q.done and not any(e[0] in ('continue', 'break') for e in q.effects)]
        effectful = [q for q in subpaths if [e for e in q.effects if e[0] != 'continue']]
        if len(returning) > 1 and not effectful and len({(repr(q.ret), q.raised) for q in returning}) == 1:
            # several exits with the same result: one exit under the disjunction of their conditions
            merged = returning[0].clone()
            merged.cond = mk_or(*[q.cond for q in returning])
            subpaths = [q for q in subpaths if q not in returning] + [merged]
            returning = [merged]
        if returning and not effectful:
            out = []
            rest_cond = p.cond
            # exists v in coll: cond_i(v) -> return r_i   (first match wins; conditions disjoint)
            if len(returning) > 1:
                # several exits: the first element satisfying ANY exit condition decides; keep it as one
                # search term over the disjunction, the outcome being a function of the element found
                table = canonical_table(subpaths, drop_env=True)
                pr = p.clone()
                pr.effects.append(('search', canon(coll), table))
                return [pr]
            for q in returning:
                pr = p.clone()
                ex = mk_any(canon(coll), canon(q.cond))
                pr.cond = mk_and(p.cond, ex)
                # the element that made the loop return: the first one satisfying the exit condition
                pr.ret = _subst(q.ret, var, ('first', canon(coll), canon(q.cond))) \
                    if q.ret is not None and _mentions(q.ret, var) else q.ret
                pr.done = True
                pr.raised = q.raised
                out.append(pr)
                rest_cond = mk_and(rest_cond, mk_not(ex))
            pf = p.clone()
            pf.cond = rest_cond
            out.append(pf)
            return out
        # per-element effect loop (possibly with early exits inside): canonical sub-table; rows that
        # return / raise keep their return term, so an exit inside the loop is part of the table
        table = canonical_table(subpaths, drop_env=True)
        p.effects.append(('foreach-exit' if returning else 'foreach', canon(coll), table))
        for nm in stored - tnames:
            # after the loop the local holds whatever the last iteration left (or the value before)
            p.env[nm] = ('after-loop', nm, canon(coll), table)
        return [p]


def _boolish(t):
    return is_formula(t) or t[0] in ('eq', 'lt', 'le', 'in', 'any', 'isinstance', 'bf') or (
        t[0] == 'const' and isinstance(t[1], bool))


def _is_new(t) -> bool:
    return isinstance(t, tuple) and len(t) == 2 and t[0] == 'new'


def _subst_many(t, sub):
    if not isinstance(t, tuple) or not t:
        return t
    if t in sub:
        return sub[t]
    new = tuple(_subst_many(x, sub) if isinstance(x, tuple) else x for x in t)
    if new and new[0] == 'table' and new != t:
        return recanon_table(new)
    if new and new[0] == 'bf' and new != t:
        return recanon_bf(new)
    return new


def recanon_bf(t):
    """('bf', atoms, bits) whose atoms were rewritten: restore the sorted-atom order."""
    atoms, bits = list(t[1]), t[2]
    order = sorted(range(len(atoms)), key=lambda i: repr(atoms[i]))
    if order == list(range(len(atoms))):
        return t
    n = len(atoms)
    newbits = []
    for nb in itertools.product((False, True), repeat=n):
        old = [False] * n
        for newpos, oldpos in enumerate(order):
            old[oldpos] = nb[newpos]
        idx = 0
        for b in old:
            idx = idx * 2 + (1 if b else 0)
        newbits.append(bits[idx])
    return ('bf', tuple(atoms[i] for i in order), tuple(newbits))


def recanon_table(t):
    atoms, rows = list(t[1]), t[2]
    order = sorted(range(len(atoms)), key=lambda i: repr(atoms[i]))
    n = len(atoms)
    newrows = []
    for nb in itertools.product((False, True), repeat=n):
        old = [False] * n
        for newpos, oldpos in enumerate(order):
            old[oldpos] = nb[newpos]
        idx = 0
        for b in old:
            idx = idx * 2 + (1 if b else 0)
        newrows.append(_resort_outcome(rows[idx]))
    return ('table', tuple(atoms[i] for i in order), tuple(newrows))


def _fold_fill(effs):
    """create-then-fill is create-with-content: `P[k] := []` together with `P[k].extend(V)` (nothing else through
    P[k]) is `P[k] := V` - V fresh, or copying ignored by this table (freshness is R6's obligation there)."""
    effs = list(effs)
    changed = True
    while changed:
        changed = False
        for i, e in enumerate(effs):
            if isinstance(e, tuple) and e and e[0] == 'setitem' and len(e) == 4 and e[3] == ('list', ()):
                place = ('item', e[1], e[2])
                users = [j for j, e2 in enumerate(effs) if j != i and repr(place) in repr(e2)]
                if len(users) == 1:
                    e2 = effs[users[0]]
                    if e2[0] == 'extend' and len(e2) == 3 and e2[1] == place and isinstance(e2[2], tuple) and e2[2] and (
                            _STRIP[0] or e2[2][0] in ('mcall', 'call', 'filtermap', 'list', 'listcat')):
                        effs[i] = ('setitem', e[1], e[2], e2[2])
                        del effs[users[0]]
                        changed = True
                        break
    return effs


def _resort_outcome(o):
    if not (isinstance(o, tuple) and o and o[0] == 'out'):
        return o
    return ('out', tuple(sorted(o[1], key=repr)), _sort_effects(_fold_fill(o[2])), o[3])


def _news_in(t, acc=None):
    acc = acc if acc is not None else set()
    if isinstance(t, tuple):
        if _is_new(t):
            acc.add(t)
        else:
            for x in t:
                if isinstance(x, tuple):
                    _news_in(x, acc)
    return acc


def resolve_fresh(q):
    """name every locally created container by the place it is finally stored at (dict key / attribute of
    another object); the storing write itself is dropped, a ('mk', place, kind) marker records the creation."""
    sub = {}
    for e in q.effects:
        if e[0] == 'setitem' and _is_new(e[3]) and e[3] not in sub and not _mentions(e[1], e[3]):
            sub[e[3]] = ('item', e[1], e[2])
        elif e[0] == 'set' and _is_new(e[2]) and e[2] not in sub:
            sub[e[2]] = ('attr', e[1][0], e[1][1])
    # a locally created container that is never filled and never stored anywhere is just an empty literal
    touched = {}
    for e in q.effects:
        for o in _news_in(e):
            touched.setdefault(o, []).append(e)
    for o, es in touched.items():
        if o not in sub and len(es) == 1 and es[0][0] == 'mk' and es[0][1] == o:
            sub[o] = ('dict', ()) if es[0][2] == 'dict' else ('list', ())
            q = q.clone()
            q.effects = [e for e in q.effects if e is not es[0]]
    if not sub:
        return q
    # chains: o2 stored in o1, o1 stored in the heap
    for _ in range(6):
        changed = False
        for k in list(sub):
            nv = _subst_many(sub[k], {x: y for x, y in sub.items() if x != k})
            if nv != sub[k]:
                sub[k] = nv
                changed = True
        if not changed:
            break
    q2 = q.clone()
    effs = []
    for e in q.effects:
        if e[0] == 'setitem' and e[3] in sub and sub[e[3]] == _subst_many(('item', e[1], e[2]), sub):
            continue
        if e[0] == 'set' and e[2] in sub:
            continue
        effs.append(_subst_many(e, sub))
    q2.effects = effs
    q2.cond = _subst_many(q.cond, sub)
    if q.ret is not None:
        q2.ret = simp(_subst_many(q.ret, sub))
    return q2


def _axiom_distinct(a, b) -> bool:
    """domain facts used to discard impossible rows: the two components of Model.get_association_field_names(x)
    (an association's two field names) are different strings."""
    if not (isinstance(a, tuple) and isinstance(b, tuple) and len(a) == 3 and len(b) == 3):
        return False
    if a[0] == 'item' and b[0] == 'item' and a[1] == b[1] and a[2] != b[2]:
        base = a[1]
        return isinstance(base, tuple) and len(base) > 1 and base[0] == 'mcall' and base[1] == 'get_association_field_names'
    return False


def canonical_table(paths, drop_env=False):
    """decision table: essential atoms (sorted) x outcome per valuation."""
    paths = [resolve_fresh(q) for q in paths if q.cond != FALSE]
    paths = [q for q in paths if q.cond != FALSE]
    # boolean-return lifting: a predicate written with early returns equals the one returning a formula
    if paths and all(not [e for e in q.effects if e[0] != 'continue'] and q.ret is not None
                     and not q.raised and _boolish(q.ret) for q in paths):
        f = mk_or(*[mk_and(q.cond, TRUE if q.ret == TRUE else (FALSE if q.ret == FALSE else q.ret))
                    for q in paths])
        single = Path()
        single.ret = f
        paths = [single]
    atoms = set()
    for q in paths:
        atoms_of(q.cond, atoms)
    # a stored boolean that is a formula over tests (`x.f = E if c else False`, i.e. c & E) is the same as branching
    # on those tests and storing constants: its atoms join the table and the value is evaluated per row
    vatoms = set()
    for q in paths:
        for e in q.effects:
            if e[0] == 'set' and isinstance(e[2], tuple) and e[2] and _boolish(e[2]) and e[2] not in (TRUE, FALSE):
                atoms_of(e[2], vatoms)
    cofactor = bool(vatoms) and len(atoms | vatoms) <= MAX_ATOMS
    if cofactor:
        atoms |= vatoms
    atoms = sorted(atoms, key=repr)
    if len(atoms) > MAX_ATOMS:
        raise Unsupported(f'{len(atoms)} atoms in one table')
    rows = {}
    # atoms `X == c` with one subject X and different constants c exclude each other
    eq_subject = {}
    for i, a in enumerate(atoms):
        if isinstance(a, tuple) and a and a[0] == 'eq' and len(a) == 3:
            for x, c in ((a[1], a[2]), (a[2], a[1])):
                if isinstance(c, tuple) and c and c[0] in ('lit', 'const') and not (isinstance(x, tuple) and x and x[0] in ('lit', 'const')):
                    eq_subject[i] = (x, c)

    # domain axiom: the two field names of one association are different, so `names[0] == v` and `names[1] == v`
    # exclude each other as well
    eq_pairs = {}
    for i, a in enumerate(atoms):
        if isinstance(a, tuple) and a and a[0] == 'eq' and len(a) == 3 and i not in eq_subject:
            eq_pairs[i] = (a[1], a[2])

    def conflict(bits):
        """index of the later of two true atoms that cannot hold together, or None"""
        seen = {}
        for i, b in enumerate(bits):
            if b and i in eq_subject:
                x, c = eq_subject[i]
                if x in seen and seen[x] != c:
                    return i
                seen.setdefault(x, c)
        true_pairs = [(i, eq_pairs[i]) for i, b in enumerate(bits) if b and i in eq_pairs]
        for k, (i, (x1, y1)) in enumerate(true_pairs):
            for (j, (x2, y2)) in true_pairs[k + 1:]:
                for p_, q_, v1, v2 in ((x1, x2, y1, y2), (x1, y2, y1, x2), (y1, x2, x1, y2), (y1, y2, x1, x2)):
                    if v1 == v2 and _axiom_distinct(p_, q_):
                        return j
        return None
    base_out = {}
    for bits in itertools.product((False, True), repeat=len(atoms)):
        if conflict(bits) is not None:
            continue
        val = dict(zip(atoms, bits))
        hit = [q for q in paths if ev(q.cond, val)]
        if not hit:
            rows[bits] = ('unreachable',)
            continue
        # several paths can hold only if they agree (conditions are disjoint by construction)
        q = hit[0]
        # the outcome of a path is the same for every row it covers unless the row decides something inside it: work
        # per row only where the rendered outcome mentions what the row could rewrite (memo per path and relevant bits)
        if id(q) not in base_out:
            bo = outcome(q, None)
            rep = repr(bo)
            has_bool_store = cofactor and any(e[0] == 'set' and isinstance(e[2], tuple) and e[2] and _boolish(e[2])
                                              and e[2] not in (TRUE, FALSE) for e in q.effects)
            rel_ite = [i for i, a_ in enumerate(atoms) if "'ite'" in rep and repr(a_) in rep]
            rel_eqc = [i for i in eq_subject if isinstance(eq_subject[i][0], tuple) and eq_subject[i][0]
                       and eq_subject[i][0][0] in ('attr', 'item') and repr(eq_subject[i][0]) in rep]
            rel_eqp = [i for i in eq_pairs if repr(sorted(eq_pairs[i], key=repr)[1]) in rep]
            base_out[id(q)] = (bo, has_bool_store, rel_ite, rel_eqc, rel_eqp, {})
        bo, has_bool_store, rel_ite, rel_eqc, rel_eqp, memo_ = base_out[id(q)]
        if not (has_bool_store or rel_ite or rel_eqc or rel_eqp):
            rows[bits] = bo
            continue
        mkey = bits if has_bool_store else (tuple(bits[i] for i in rel_ite), tuple(bits[i] for i in rel_eqc),
                                            tuple(bits[i] for i in rel_eqp))
        if mkey in memo_:
            rows[bits] = memo_[mkey]
            continue
        out_ = outcome(q, val) if has_bool_store else bo
        # conditionals inside the outcome that test an atom of this very row are decided by the row
        for i in (range(len(atoms)) if has_bool_store else rel_ite):
            out_ = _assume(out_, atoms[i], bits[i])
        if rel_ite and isinstance(out_, tuple) and out_ and out_[0] == 'out' and "'ite'" in repr(out_):
            # ... also when the test is a formula over several atoms of the row
            out_ = ('out',) + tuple(_resolve_ites(x, val) if isinstance(x, tuple) else x for x in out_[1:])
        # under a true `X == c` (c a constant) X is c
        for i in rel_eqc:
            if bits[i]:
                x_, c_ = eq_subject[i]
                out_ = _subst(out_, x_, c_)
        # under a true `x == y` the two terms are interchangeable: one spelling (the smaller) in the outcome
        for i in rel_eqp:
            if bits[i]:
                x_, y_ = sorted(eq_pairs[i], key=repr)
                if not (isinstance(x_, tuple) and isinstance(y_, tuple)):
                    continue
                out_ = _subst(out_, y_, x_)
        memo_[mkey] = out_
        rows[bits] = out_
    # infeasible valuations are don't-cares: filled canonically from the feasible neighbour obtained by dropping the
    # later conflicting atom, so that two tables that agree on every feasible valuation stay equal
    for bits in itertools.product((False, True), repeat=len(atoms)):
        b2 = bits
        while True:
            k = conflict(b2)
            if k is None:
                break
            b2 = b2[:k] + (False,) + b2[k + 1:]
        if b2 != bits:
            rows[bits] = rows[b2]
    ess = []
    for i, a in enumerate(atoms):
        for bits, r in rows.items():
            if not bits[i]:
                b2 = bits[:i] + (True,) + bits[i + 1:]
                if rows[b2] != r:
                    ess.append(i)
                    break
    eatoms = tuple(atoms[i] for i in ess)
    table = []
    for bits in itertools.product((False, True), repeat=len(eatoms)):
        full = [False] * len(atoms)
        for j, i in enumerate(ess):
            full[i] = bits[j]
        table.append(rows[tuple(full)])
    return ('table', eatoms, tuple(table))


def _resolve_ites(t, val):
    """conditional values whose test is decided by the row's valuation (every atom of the test is a row atom) take the
    selected branch"""
    if not isinstance(t, tuple) or not t or val is None:
        return t
    if t[0] in ('table', 'bf', 'out'):
        return t
    if t[0] == 'ite' and len(t) == 4:
        acc = set()
        try:
            atoms_of(t[1], acc)
        except Exception:
            acc = None
        if acc is not None and acc and all(a in val for a in acc):
            try:
                return _resolve_ites(t[2] if ev(t[1], val) else t[3], val)
            except Exception:
                pass
    return tuple(_resolve_ites(x, val) if isinstance(x, tuple) else x for x in t)


def outcome(q: Path, val=None):
    if val is not None and q.ret is not None and _find_ite(q.ret) is not None:
        q = q.clone()
        q.ret = _resolve_ites(q.ret, val)
    effs = []
    final = {}
    for e in q.effects:
        if e[0] == 'set':
            v = e[2]
            if val is not None and isinstance(v, tuple) and v and _boolish(v) and v not in (TRUE, FALSE):
                v = TRUE if ev(v, val) else FALSE
            final[e[1]] = canon(v)
        elif e[0] == 'continue':
            continue
        else:
            effs.append(e)
    # create-then-fill is create-with-content: `d[k] = []` (or a literal holding `'k': []`) followed, in program
    # order, by `d[k].extend(V)` / `.append(v)` with nothing else touching d[k] in between
    changed = True
    while changed:
        changed = False
        for i, e in enumerate(effs):
            if e[0] == 'setitem' and len(e) == 4 and isinstance(e[3], tuple) and e[3] == ('list', ()):
                place = ('item', e[1], e[2])
                for j in range(i + 1, len(effs)):
                    e2 = effs[j]
                    if e2[0] == 'extend' and len(e2) == 3 and e2[1] == place:
                        v = e2[2]
                        # (the filled list is a copy of V: the same as storing V itself only when V is fresh - or when
                        # this table ignores copying altogether, freshness being another rule's obligation)
                        if isinstance(v, tuple) and v and (_STRIP[0] or v[0] in ('mcall', 'call', 'filtermap', 'list', 'listcat')):
                            effs[i] = ('setitem', e[1], e[2], v)
                            del effs[j]
                            changed = True
                        break
                    if repr(place) in repr(e2):
                        break
                if changed:
                    break
    sets = tuple(sorted(((loc, v) for loc, v in final.items()
                         if v != ('attr', loc[0], loc[1])), key=repr))
    out = ('out', sets, _sort_effects(effs), canon(q.ret) if q.ret is not None else NONE)
    # fresh objects that stay anonymous (returned, not attached anywhere) are numbered by first appearance
    for _ in range(2):
        out = _renumber_new(out)
        out = ('out', tuple(sorted(out[1], key=repr)), _sort_effects(_fold_fill(out[2])), out[3])
    return out


def _renumber_new(out):
    order = {}

    def scan(t):
        if isinstance(t, tuple):
            if len(t) == 2 and t[0] == 'new' and isinstance(t[1], int):
                order.setdefault(t, ('new', len(order) + 1))
                return
            for x in t:
                scan(x)
    scan(out[3])
    scan(out[1])
    scan(out[2])
    if all(k == v for k, v in order.items()):
        return out

    def sub(t):
        if isinstance(t, tuple):
            if t in order:
                return ('new!', order[t][1])
            return tuple(sub(x) for x in t)
        return t

    def back(t):
        if isinstance(t, tuple):
            if len(t) == 2 and t[0] == 'new!':
                return ('new', t[1])
            return tuple(back(x) for x in t)
        return t
    return back(sub(out))


PRIM = ('setitem', 'append', 'extend', 'delitem', 'mk')


def _write_targets(e, acc) -> bool:
    """container places written by effect e (recursively for per-element loops); False when e does anything
    else (calls, exits): such an effect is a barrier for re-ordering."""
    k = e[0]
    if k in ('setitem', 'delitem'):
        acc.append((e[1], e[2]))
        return True
    if k in ('append', 'extend', 'mk'):
        acc.append((e[1], None))
        return True
    if k == 'foreach':
        tab = e[2]
        for row in tab[2]:
            if not (isinstance(row, tuple) and row and row[0] == 'out'):
                continue
            if row[1] or row[3] not in (NONE, None):
                return False
            for x in row[2]:
                if not _write_targets(x, acc):
                    return False
        return True
    return False


def _expand_dict_values(effs):
    """d[k] = {'a': x, 'b': {...}}   ==   d[k] = {} ; d[k]['a'] = x ; d[k]['b'] = {} ; ...   (one spelling)"""
    out = []
    for e in effs:
        if e[0] == 'setitem' and isinstance(e[3], tuple) and e[3] and e[3][0] == 'dict':
            place = ('item', e[1], e[2])
            sub = [('mk', place, 'dict')] + [('setitem', place, k, v) for k, v in e[3][1]]
            out.extend(_expand_dict_values(sub))
        else:
            out.append(e)
    return out


def _sort_effects(effs):
    """maximal runs of container writes are put in a canonical order: writes to different places commute (no
    two names for one container inside these small builders); writes to the SAME place keep their order."""
    effs = _expand_dict_values(effs)
    out, run = [], []

    def flush():
        if not run:
            return
        keyed = []
        for idx, (e, tg) in enumerate(run):
            keyed.append((e, tg, idx))
        # same place -> keep relative order: sort by (first target repr, original index within that target)
        def place(tg):
            return repr(sorted(map(repr, tg))[:1])
        keyed.sort(key=lambda x: (place(x[1]), x[2]))
        # two plain stores into the same slot inside one run of container writes: the later one wins (nothing reads
        # the slot in between - a run holds writes only - unless the later value is computed from the slot itself)
        res = []
        last = {}
        for e, tg, idx in keyed:
            if e[0] == 'setitem':
                slot = (e[1], e[2])
                if slot in last and not _mentions(e[3], ('item', e[1], e[2])):
                    res[last[slot]] = None
                last[slot] = len(res)
            res.append(e)
        out.extend(x for x in res if x is not None)
        run.clear()
    for e in effs:
        acc = []
        if e[0] in PRIM or e[0] == 'foreach':
            if _write_targets(e, acc):
                run.append((e, acc))
                continue
        flush()
        out.append(e)
    flush()
    return tuple(out)


_STRIP = [False]


def table_of(fnode, inline=None, strip_copies=False, effectful=None):
    ex = Extractor(fnode, inline, strip_copies=strip_copies)
    ex.eff_inline = dict(effectful or {})
    _STRIP[0] = bool(strip_copies)
    try:
        paths = ex.run()
        return canonical_table(paths)
    finally:
        _STRIP[0] = False


def show(t, depth=0) -> str:
    """human-readable rendering of a term / table (for diagnostics)."""
    if not isinstance(t, tuple) or not t:
        return repr(t)
    k = t[0]
    if not isinstance(k, str):
        return '(' + ', '.join(show(x) for x in t) + ')'
    if k == 'const':
        return repr(t[1])
    if k == 'lit':
        return t[2]
    if k == 'p':
        return f'arg{t[1]}'
    if k == 'v':
        return f'x{t[1]}'
    if k == 'attr':
        return f'{show(t[1])}.{t[2]}'
    if k == 'not':
        return f'not {show(t[1])}'
    if k in ('and', 'or'):
        return '(' + f' {k} '.join(show(x) for x in t[1]) + ')'
    if k == 'eq':
        return f'{show(t[1])} == {show(t[2])}'
    if k in ('lt', 'le'):
        return f'{show(t[1])} {"<" if k == "lt" else "<="} {show(t[2])}'
    if k == 'in':
        return f'{show(t[1])} in {show(t[2])}'
    if k == 'any':
        return f'EXISTS x in {show(t[1])}: {show(t[2])}'
    if k == 'bf':
        rows = []
        for bits, r in zip(itertools.product((False, True), repeat=len(t[1])), t[2]):
            if r:
                rows.append(' & '.join(('' if b else '~') + show(a) for a, b in zip(t[1], bits)))
        return '{' + ' | '.join(rows) + '}'
    if k == 'mcall':
        return f'{show(t[2])}.{t[1]}({", ".join(show(a) for a in t[3])})'
    if k == 'call':
        return f'{t[1]}({", ".join(show(a) for a in t[2])})'
    if k == 'item':
        return f'{show(t[1])}[{show(t[2])}]'
    if k == 'len':
        return f'len({show(t[1])})'
    if k == 'list':
        return '[' + ', '.join(show(x) for x in t[1]) + ']'
    if k == 'out':
        parts = [f'{show(loc[0])}.{loc[1]} := {show(v)}' for loc, v in t[1]]
        parts += [show(e) for e in t[2]]
        parts.append('-> ' + show(t[3]))
        return '; '.join(parts)
    if k == 'do':
        return 'call ' + show(t[1])
    if k == 'append':
        return f'{show(t[1])}.append({show(t[2])})'
    if k == 'foreach':
        return f'FOR x in {show(t[1])}: [{show(t[2])}]'
    if k == 'table':
        rows = []
        for bits, r in zip(itertools.product((False, True), repeat=len(t[1])), t[2]):
            cond = ' & '.join(('' if b else '~') + show(a) for a, b in zip(t[1], bits)) or 'always'
            rows.append(f'[{cond}] => {show(r)}')
        return ' || '.join(rows)
    if k == 'setitem':
        return f'{show(t[1])}[{show(t[2])}] := {show(t[3])}'
    if k == 'extend':
        return f'{show(t[1])}.extend({show(t[2])})'
    if k == 'dict':
        return '{' + ', '.join(f'{show(a)}: {show(b)}' for a, b in t[1]) + '}'
    if k == 'filtermap':
        return f'[{show(t[2])} for ' + ' for '.join(f'x in {show(c)} if {show(cond)}' for c, cond in t[1]) + ']'
    if k == 'global':
        return t[1]
    if k == 'listcat':
        return ' ++ '.join(show(x) for x in t[1])
    return k + '(' + ', '.join(show(x) if isinstance(x, tuple) else repr(x) for x in t[1:]) + ')'


def diff_tables(a, b) -> str:
    """first difference between two canonical tables, rendered."""
    if a[0] != 'table' or b[0] != 'table':
        return f'{show(a)}  VS  {show(b)}'
    atoms = sorted(set(a[1]) | set(b[1]), key=repr)

    def lookup(t, val):
        bits = tuple(val[x] for x in t[1])
        idx = 0
        for bt in bits:
            idx = idx * 2 + (1 if bt else 0)
        return t[2][idx]
    for bits in itertools.product((False, True), repeat=len(atoms)):
        val = dict(zip(atoms, bits))
        ra, rb = lookup(a, val), lookup(b, val)
        if ra != rb:
            cond = ' & '.join(('' if v else 'not ') + show(x) for x, v in val.items()) or 'always'
            return f'when [{cond}]: code does [{show(ra)}] but the reference table says [{show(rb)}]'
    return 'tables differ'


def names_in(t, acc):
    """attribute / function / method names occurring in a term (the vocabulary)."""
    if not isinstance(t, tuple) or not t:
        return
    k = t[0]
    if not isinstance(k, str):
        for x in t:
            names_in(x, acc)
        return
    if k == 'attr':
        acc.add('.' + t[2])
    elif k == 'call':
        acc.add(t[1] + '()')
    elif k == 'mcall':
        acc.add('.' + t[1] + '()')
    elif k == 'global':
        acc.add(t[1])
    elif k == 'const':
        return
    elif k == 'lit':
        if t[1] == 'str':
            acc.add(t[2])
        return
    for x in t[1:]:
        if isinstance(x, tuple):
            names_in(x, acc)


def opaque_names(t, acc):
    """names of calls that were NOT expanded (functions / methods whose body the table does not see)
    and of module globals: the part of a table's vocabulary that can hide arbitrary behaviour."""
    if not isinstance(t, tuple) or not t:
        return
    k = t[0]
    if not isinstance(k, str):
        for x in t:
            opaque_names(x, acc)
        return
    if k == 'call':
        if t[1] not in KNOWN_BUILTINS:
            acc.add(t[1] + '()')
    elif k == 'mcall':
        if t[1] not in KNOWN_METHODS:
            acc.add('.' + t[1] + '()')
    elif k == 'global':
        acc.add(t[1])
    elif k in ('const', 'lit'):
        return
    for x in t[1:]:
        if isinstance(x, tuple):
            opaque_names(x, acc)


KNOWN_BUILTINS = {'set', 'dict', 'list', 'tuple', 'frozenset', 'str', 'int', 'float', 'len', 'sorted', 'min', 'max',
                  'sum', 'abs', 'round', 'next', 'iter', 'range', 'enumerate', 'zip', 'map', 'filter', 'getattr',
                  'hasattr', 'isinstance', 'bool', 'id', 'repr', 'type', 'reversed', 'any', 'all'}
KNOWN_METHODS = {'get', 'keys', 'values', 'items', 'add', 'append', 'extend', 'remove', 'pop', 'discard', 'update',
                 'copy', 'setdefault', 'index', 'count', 'startswith', 'endswith', 'split', 'strip', 'join',
                 'lower', 'upper', 'format', 'insert', 'clear', 'sort', 'reverse', 'intersection', 'union',
                 'difference', 'isdigit'}


IMPRECISE = {'after-loop', 'after-while', 'while', 'w', 'apply', 'lambda', 'with', 'search', 'opaque', 'slice', 'starkw', 'carried'}


def _root(t):
    while isinstance(t, tuple) and t and t[0] in ('attr', 'item'):
        t = t[1]
    return t


def _fresh_container(t) -> bool:
    if _is_new(t):
        return True
    return isinstance(t, tuple) and bool(t) and (
        t[0] in ('list', 'dict', 'dictcomp', 'filtermap', 'listcat') or
        (t[0] == 'call' and t[1] in ('set', 'dict', 'list', 'tuple', 'frozenset', 'defaultdict', 'Counter')))


def imprecise_kinds(t, acc):
    """constructs the table language only names but does not interpret: state left behind by a loop,
    while loops, dynamic calls, and mutation of a container created locally (its identity and
    contents are not modelled)."""
    if not isinstance(t, tuple) or not t:
        return
    if isinstance(t[0], str):
        if t[0] in IMPRECISE:
            acc.add(t[0])
        if t[0] in ('setitem', 'append', 'extend', 'delitem') and len(t) > 1 and _fresh_container(_root(t[1])):
            acc.add('local-container-state')
            if t[0] in ('setitem', 'delitem') and _is_new(t[1]):
                # a mapping created and keyed inside the call (a per-call memo / index): reads through it are not
                # resolved back to what was stored
                acc.add('local-mapping-state')
        if t[0] == 'out' and len(t) > 2 and isinstance(t[2], tuple):
            # a container created at a place (`d[k] = {'xs': []}`: ('mk', place, kind) markers) and filled through that
            # place in the same run of effects (`d[k]['xs'].extend(ys)`): create-then-fill and create-with-content
            # are not brought to one form
            effs = [e for e in t[2] if isinstance(e, tuple) and e]
            made = {repr(e[1]) for e in effs if e[0] == 'mk' and len(e) == 3 and not _is_new(e[1])}
            for e2 in effs:
                if e2[0] in ('extend', 'append') and len(e2) > 1 and repr(e2[1]) in made:
                    acc.add('fill-after-create')
        if t[0] in ('const', 'lit'):
            return
    for x in t:
        if isinstance(x, tuple):
            imprecise_kinds(x, acc)


def imprecise(t) -> bool:
    acc = set()
    imprecise_kinds(t, acc)
    return bool(acc)
