"""Positive fixture for rule R6 (must be reported on every run): a resolver that stores a list
owned by the specification into its result and later extends the list found at that path."""
import copy


class Lang:
    def __init__(self, lang):
        self._lang_spec = lang

    def resolve(self, name):
        result = {}
        asset = next(a for a in self._lang_spec['assets'] if a['name'] == name)
        if asset['superAsset']:
            result = self.resolve(asset['superAsset'])
        for step in asset['attackSteps']:
            if step['name'] not in result:
                result[step['name']] = copy.deepcopy(step)
            elif result[step['name']]['reaches']:
                result[step['name']]['reaches']['stepExpressions'].extend(
                    step['reaches']['stepExpressions'])
            else:
                result[step['name']]['reaches'] = {
                    'stepExpressions': step['reaches']['stepExpressions']}
        return result

    def clean(self, name):
        result = {}
        asset = next(a for a in self._lang_spec['assets'] if a['name'] == name)
        for step in asset['attackSteps']:
            result[step['name']] = copy.deepcopy(step)
            result[step['name']]['tags'].append('x')
        return result
