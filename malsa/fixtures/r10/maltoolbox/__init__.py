"""Positive fixture for rule R10 (must be reported on every run)."""


def gen(targets):
    out = []
    for name in {t.name for t in targets}:          # BAD: hash order
        out.append(name)
    names = [n for n in set(out)]                    # BAD: hash order kept in a list
    ok = sorted({t.name for t in targets})           # fine
    has = any(n == 'x' for n in set(out))            # fine
    return out, names, ok, has


def pick(seen: set):
    return seen.pop()                                # BAD
