"""Positive fixture for rule R25 (every BAD line must be reported on every run)."""
import functools
from dataclasses import dataclass, field
from typing import Optional

_seen = {}


@dataclass
class AttackGraphNode:
    name: str
    id: Optional[int] = None
    defense_status: Optional[float] = None


class Loader:
    def __init__(self):
        self.path = None

    def load(self, name):
        if not self.path:
            self.path = name                       # per-call state kept on the instance
        return self.path


class Rule:
    """never changes after construction: one shared instance is fine"""
    def __init__(self, label):
        self.label = label

    def applies(self, x):
        return x == self.label


SHARED_RULE = Rule('or')                           # good: immutable strategy object at module level


class Graph:
    shared_loader = Loader()                       # BAD (GLOBALSTATE): stateful object at class level

    def __init__(self):
        self.index = {}
        self.nodes = []

    def drop(self, node: AttackGraphNode):
        if node.id:                                # BAD (FALSY): id 0 skipped
            del self.index[node.id]
        if node.id is not None:                    # fine
            pass

    def pick(self, node: AttackGraphNode, node_id: Optional[int] = None):
        node.id = node_id or len(self.nodes)       # BAD (FALSY)
        status = node.defense_status
        if not status:                             # BAD (FALSY): 0.0 is a value
            status = 1.0
        return status

    def attach(self, ids: list = []):
        ids.append(1)                              # BAD (MUTDEFAULT)
        return ids

    def attach_ok(self, ids: list = []):
        ids = list(ids)
        ids.append(1)                              # fine: re-bound first
        return ids


def pairs(xs, ys):
    rights = (y for y in ys)
    out = []
    for x in xs:
        for y in rights:                           # BAD (GENEXHAUST): exhausted after the first x
            out.append((x, y))
    return out


def pairs_ok(xs, ys):
    out = []
    for x in xs:
        rights = (y for y in ys)
        for y in rights:                           # fine: re-created per x
            out.append((x, y))
    return out


def remember(key, value):
    _seen[key] = value                             # BAD (GLOBALSTATE)


@functools.lru_cache(maxsize=None)
def cached_load(path):                             # BAD (GLOBALSTATE): memoised by path
    return open(path).read()
