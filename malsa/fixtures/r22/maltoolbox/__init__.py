"""Positive fixture for rule R22 (must be reported on every run)."""


class Lang:
    def __init__(self, spec):
        self._spec = spec
        self._cache = {}

    def lookup(self, asset_type, name):
        # BAD: value depends on asset_type, key is the name only
        if name in self._cache:
            return self._cache[name]
        value = self._resolve(asset_type, name)
        self._cache[name] = value
        return value

    def good(self, asset_type, name):
        key = (asset_type, name)
        if key in self._cache:
            return self._cache[key]
        value = self._resolve(asset_type, name)
        self._cache[key] = value
        return value

    def _resolve(self, asset_type, name):
        return (asset_type, name)


def rebuild(rows, lang):
    cache = {}
    out = []
    for row in rows:
        left, right = row['a'], row['b']
        lf, rf = row['lf'], row['rf']
        key = frozenset((lf, rf))
        if key in cache:
            assoc = cache[key]
        else:
            # BAD: depends on left/right types as well
            assoc = lang.find(lf, rf, left.type, right.type)
            cache[key] = assoc
        out.append(assoc)
    return out
