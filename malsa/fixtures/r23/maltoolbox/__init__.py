"""Positive fixture for rule R23 (must be reported on every run)."""


def extend_surface(surface, nodes):
    seen = {n.id for n in surface}          # built once
    for node in nodes:
        for child in node.children:
            if child.id in seen:            # guards the append below ...
                continue
            surface.append(child)           # ... but `seen` is never updated: BAD
    return surface


def extend_surface_ok(surface, nodes):
    seen = {n.id for n in surface}
    for node in nodes:
        for child in node.children:
            if child.id not in seen:
                seen.add(child.id)
                surface.append(child)
    return surface
