"""E9: self-test of the checkers on scratch variants (thorough tier).

Variants live under /verif/seeded/<name>/ :
  patch.diff (+ optional ported.diff = the same change re-based on the current tree), meta.json with
  "kind": "breaking" (default) or "twin" (behaviour-preserving refactoring) and "expect": list of
  property ids whose check must report it (breaking) / must all stay silent (twin).
For property P the thorough tier applies every variant that concerns P to a scratch copy of the
CURRENT /repo tree (mkdtemp outside /repo and /verif, removed at once), runs P's rules on the copy
in-process and compares with the label.  A variant that no longer applies is 'skipped'.  A verdict
different from the label means the CHECKER is broken (exit 2), never a violation of the property.
"""
from __future__ import annotations

import concurrent.futures
import json
import os
import shutil
import subprocess
import tempfile

from .core import AnalysisError
from .report import VERIF

SEEDED = os.path.join(VERIF, 'seeded')


def _variants(pid):
    out = []
    if not os.path.isdir(SEEDED):
        return out
    for name in sorted(os.listdir(SEEDED)):
        mp = os.path.join(SEEDED, name, 'meta.json')
        if not os.path.exists(mp):
            continue
        meta = json.load(open(mp, encoding='utf-8'))
        kind = meta.get('kind', 'breaking')
        expect = meta.get('expect', [])
        if kind == 'breaking' and pid in expect:
            out.append((name, kind))
        elif kind == 'twin' and (pid in meta.get('touches', []) or pid == meta.get('property')):
            out.append((name, kind))
    return out


def _one(args):
    pid, name, kind, repo = args
    d = os.path.join(SEEDED, name)
    patch = os.path.join(d, 'ported.diff')
    if not os.path.exists(patch):
        patch = os.path.join(d, 'patch.diff')
    tmp = tempfile.mkdtemp(prefix='malsa_variant_')
    try:
        shutil.copytree(os.path.join(repo, 'maltoolbox'), os.path.join(tmp, 'maltoolbox'),
                        ignore=shutil.ignore_patterns('__pycache__'))
        r = subprocess.run(['patch', '-p1', '-s', '-f', '-d', tmp, '-i', patch], capture_output=True, text=True)
        if r.returncode != 0:
            return name, kind, 'skipped', 'patch does not apply to the current tree'
        # separate process: the rule caches are per-process and keyed by object identity
        code = ('import sys, json; sys.path.insert(0, %r); from malsa.runner import verdicts; '
                'v, mine = verdicts(%r, %r); print(json.dumps([i.key for i in v]))' % (VERIF, pid, tmp))
        r = subprocess.run(['/venv/bin/python', '-c', code], capture_output=True, text=True, cwd=VERIF)
        if r.returncode != 0:
            return name, kind, 'error', (r.stdout + r.stderr)[-300:]
        keys = json.loads(r.stdout.strip().splitlines()[-1])
        if kind == 'breaking':
            return name, kind, ('ok' if keys else 'MISSED'), '; '.join(keys[:3])
        return name, kind, ('ok' if not keys else 'FALSE-ALARM'), '; '.join(keys[:3])
    finally:
        shutil.rmtree(tmp, ignore_errors=True)


def run_for(pid, quiet=False, repo=None):
    from .core import REPO
    repo = repo or REPO
    vs = _variants(pid)
    res = {'variants': len(vs), 'applied': 0, 'skipped': 0, 'breaking_caught': 0, 'twins_silent': 0,
           'broken': [], 'details': []}
    if not vs:
        res['note'] = 'no variant concerns this property'
        return res
    with concurrent.futures.ThreadPoolExecutor(max_workers=16) as ex:
        for name, kind, status, info in ex.map(_one, [(pid, n, k, repo) for n, k in vs]):
            res['details'].append({'variant': name, 'kind': kind, 'status': status, 'info': info[:200]})
            if status == 'skipped':
                res['skipped'] += 1
                continue
            res['applied'] += 1
            if status == 'ok':
                if kind == 'breaking':
                    res['breaking_caught'] += 1
                else:
                    res['twins_silent'] += 1
            else:
                res['broken'].append(f'{name}: {status} {info[:120]}')
    if not quiet:
        print(f'  self-test {pid}: {res["applied"]} variants applied ({res["skipped"]} skipped): '
              f'{res["breaking_caught"]} breaking caught, {res["twins_silent"]} twins silent, '
              f'{len(res["broken"])} mislabelled')
    return res
