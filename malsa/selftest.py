"""E9: checker self-test on scratch variants (thorough tier). Filled in later."""


def run_for(pid, quiet=False):
    return {'variants': 0, 'note': 'variant corpus not built yet', 'broken': []}
