"""D31 (C17): text behind the last declaration that parses was ignored by MalCompiler.compile.
exit 1 when a file with trailing junk compiles, 0 when both are rejected (and the clean file compiles)."""
import os
import sys
from maltoolbox.language.compiler import MalCompiler
here = os.path.dirname(os.path.abspath(__file__))
bad = 0
MalCompiler().compile(os.path.join(here, 'd31_good.mal'))
for f in ('d31_junk1.mal', 'd31_junk2.mal'):
    try:
        r = MalCompiler().compile(os.path.join(here, f))
        print(f, 'COMPILED', [a['name'] for a in r['assets']])
        bad = 1
    except Exception as e:
        print(f, 'rejected:', type(e).__name__, str(e)[:80])
sys.exit(bad)
