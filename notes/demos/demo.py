"""Demonstrations of the defects triaged in DESIGN.md section 6, against whatever maltoolbox is
importable (PYTHONPATH=<tree> selects a scratch tree).  NOT part of any registered check (the
checks are static); these runs are the evidence that a rule hit is a genuine defect.

usage: /venv/bin/python notes/demos/demo.py [D1 D2 ...]     (prints DEFECT / ok per id)
"""
import copy
import logging
import os
import sys
import tempfile

logging.disable(logging.CRITICAL)
HERE = os.path.dirname(os.path.abspath(__file__))
os.chdir(tempfile.mkdtemp(prefix='maldemo'))     # maltoolbox writes tmp/log.txt relative to cwd

from maltoolbox.language import LanguageGraph, LanguageClassesFactory   # noqa: E402
from maltoolbox.model import Model, AttackerAttachment                   # noqa: E402
from maltoolbox.attackgraph import AttackGraph, Attacker                 # noqa: E402
from maltoolbox.attackgraph.analyzers import apriori                     # noqa: E402


def base():
    lg = LanguageGraph.from_mal_spec(os.path.join(HERE, 'lang.mal'))
    lcf = LanguageClassesFactory(lg)
    m = Model('m', lcf)
    h1 = lcf.ns.Host(name='h1')
    h2 = lcf.ns.Host(name='h2')
    apps = [lcf.ns.App(name=f'a{i}') for i in range(3)]
    for x in [h1, h2] + apps:
        m.add_asset(x)
    r = lcf.ns.Runs(); r.host = [h1]; r.apps = list(apps); m.add_association(r)
    s = lcf.ns.Special(); s.shost = [h1]; s.special = [apps[1]]; m.add_association(s)
    l = lcf.ns.Link(); l.prv = [h1]; l.nxt = [h2]; m.add_association(l)
    return lg, lcf, m, h1, h2, apps


def D1():
    lg, lcf, m, *_ = base()
    g = AttackGraph(lg, m)
    got = sorted(c.full_name for c in g.get_node_by_full_name('h1:diff').children)
    return got != ['a0:run', 'a2:run'], f'(apps - special).run from h1 -> {got}'


def D2():
    lg, lcf, m, h1, h2, apps = base()
    g = AttackGraph(lg, m)
    # h2 has no nxt; prv = [h1]:  (nxt \/ prv) must be {h1}
    got = sorted(c.full_name for c in g.get_node_by_full_name('h2:hop').children)
    return got != ['h1:connect'], f'(nxt \\/ prv).connect from h2 -> {got}'


def D6():
    lg, lcf, m, *_ = base()
    g = AttackGraph(lg, m)
    a = Attacker(name='x', entry_points=[], reached_attack_steps=[])
    g.add_attacker(a)
    for n in g.nodes[:4]:
        a.compromise(n)
    g.remove_attacker(a)
    left = [n.full_name for n in g.nodes if n.compromised_by]
    return bool(left), f'after remove_attacker still compromised: {left}'


def D7():
    lg, lcf, m, *_ = base()
    g = AttackGraph(lg, m)
    for x in g.nodes:
        if x.type in ('or', 'and'):
            x.is_viable = False
    apriori.prune_unviable_and_unnecessary_nodes(g)
    left = [x.full_name for x in g.nodes if x.type in ('or', 'and')]
    return bool(left), f'non-viable or/and nodes left after prune: {len(left)}'


def D5():
    lg, lcf, m, *_ = base()
    g = AttackGraph(lg, m)
    n = len(g.nodes)
    g.regenerate_graph()
    ids = sorted(x.id for x in g.nodes)
    bad = ids != list(range(n)) or len(g._id_to_node) != n or len(g._full_name_to_node) != n \
        or any(g.get_node_by_id(x.id) is not x for x in g.nodes)
    return bad, f'after regenerate: ids {ids[0]}..{ids[-1]}, {len(g._id_to_node)} index entries for {n} nodes'


def D14():
    lg, lcf, m, h1, h2, apps = base()
    m.remove_asset(h2)
    try:
        again = lcf.ns.Host(name='h2')
        m.add_asset(again, asset_id=h2.id)
        return again.name != 'h2', f're-added asset got name {again.name!r}'
    except ValueError as e:
        return True, f're-adding the removed id raises: {e}'


def D15():
    lg, lcf, m, h1, h2, apps = base()
    runs = [a for a in m.associations if type(a).__name__ == 'Runs'][0]
    a0 = apps[0]    # (pjs keeps the very list it was given: apps itself shrinks below)
    m.remove_asset_from_association(a0, runs)
    still = [type(a).__name__ for a in a0.associations]
    return 'Runs' in still, f'a0 left Runs.apps but still lists {still}'


def D19():
    lg, lcf, m, *_ = base()
    g = AttackGraph(lg, m)
    a = Attacker(name='x', entry_points=[], reached_attack_steps=[])
    g.add_attacker(a)
    n = g.get_node_by_full_name('h1:connect')
    a.compromise(n)
    a.entry_points = [n]
    g.remove_node(n)
    return (n in a.reached_attack_steps or n in a.entry_points), \
        f'removed node still referenced by attacker: reached={n in a.reached_attack_steps} entry={n in a.entry_points}'


def D11():
    lg, lcf, m, *_ = base()            # ids 0..4 used
    m2 = Model('m2', lcf)
    x = lcf.ns.Host(name='x'); m2.add_asset(x, asset_id=5)
    y = lcf.ns.Host(name='y'); m2.add_asset(y, asset_id=0)
    return y.id != 0, f'explicit asset id 0 after id 5 -> {y.id}'


def D12():
    g = AttackGraph()
    a = Attacker(name='a'); g.add_attacker(a, attacker_id=4)
    b = Attacker(name='b'); g.add_attacker(b, attacker_id=0)
    return b.id != 0, f'explicit attacker id 0 after id 4 -> {b.id}'


def D13():
    from maltoolbox.attackgraph import AttackGraphNode
    g = AttackGraph()
    n1 = AttackGraphNode(type='or', name='s1'); n2 = AttackGraphNode(type='or', name='s2')
    g.add_node(n1, node_id=7)
    try:
        g.add_node(n2, node_id=7)
    except ValueError:
        return False, 'duplicate node id rejected'
    return True, f'node id 7 given twice: {len(g.nodes)} nodes, {len(g._id_to_node)} index entries'


def D17():
    lg, lcf, m, *_ = base()
    m2 = Model('m2', lcf)
    a = lcf.ns.Host(name='A'); m2.add_asset(a, asset_id=1)
    b = lcf.ns.Host(name='A:3'); m2.add_asset(b, asset_id=2)
    c = lcf.ns.Host(name='A'); m2.add_asset(c, asset_id=3)
    names = [str(x.name) for x in m2.assets]
    return len(set(names)) != len(names), f'names after adding A, A:3, A -> {names}'


def D16():
    lg, lcf, m, *_ = base()
    m2 = Model('m2', lcf)
    a = lcf.ns.Host(name='A'); m2.add_asset(a, asset_id=1)
    before = (sorted(m2.asset_ids), m2.next_id)
    try:
        m2.add_asset(lcf.ns.Host(name='A'), asset_id=7, allow_duplicate_names=False)
    except ValueError:
        pass
    after = (sorted(m2.asset_ids), m2.next_id)
    return before != after, f'rejected add_asset changed (asset_ids, next_id) {before} -> {after}'


def D8():
    lg, lcf, m, *_ = base()
    g = AttackGraph(lg, m)
    g2 = copy.deepcopy(g)
    n, n2 = g.get_node_by_full_name('h1:access'), g2.get_node_by_full_name('h1:access')
    n2.ttc['name'] = 'Changed'
    return n.ttc['name'] == 'Changed', f'changing the copy ttc changed the original: {n.ttc["name"]}'


def D4():
    from maltoolbox.language.compiler import MalCompiler
    spec = MalCompiler().compile(os.path.join(HERE, 'lang_d4.mal'))
    before = copy.deepcopy(spec)
    lg = LanguageGraph(spec)
    changed = spec != before
    counts = [len(lg._get_attacks_for_asset_type('LeafOne')['s']['reaches']['stepExpressions'])
              for _ in range(3)]
    return changed or len(set(counts)) != 1 or counts[0] != 2, \
        f'spec modified by LanguageGraph(): {changed}; #expressions of LeafOne.s on 3 lookups: {counts} (expected 2,2,2)'


def D9():
    lg, lcf, m, *_ = base()
    g = AttackGraph(lg, m)
    n = g.get_node_by_full_name('h1:connect')
    n.tags = ['hidden', 'x']
    p = os.path.join(os.getcwd(), 'g.json')
    g.save_to_file(p)
    g2 = AttackGraph.load_from_file(p, model=m)
    t = g2.get_node_by_full_name('h1:connect').tags
    return t != ['hidden', 'x'], f'tags after save/load: {t!r}'


def D10():
    g = AttackGraph()
    g.add_attacker(Attacker(name='dup'))
    g.add_attacker(Attacker(name='dup'))
    p = os.path.join(os.getcwd(), 'g2.json')
    g.save_to_file(p)
    g2 = AttackGraph.load_from_file(p)
    return len(g2.attackers) != 2, f'2 attackers named dup saved, {len(g2.attackers)} loaded'


def D18():
    lg, lcf, m, *_ = base()
    m.associations[0].extras = {'note': 'x'}
    out = []
    for ext in ('json', 'yml'):
        p = os.path.join(os.getcwd(), 'm.' + ext)
        try:
            m.save_to_file(p)
            m2 = Model.load_from_file(p, lcf)
            ex = m2.associations[0].extras
            ok = bool(ex) and dict(ex.as_dict() if hasattr(ex, 'as_dict') else ex) == {'note': 'x'}
            out.append(f'{ext}: extras loaded={ok}')
            if not ok:
                return True, '; '.join(out)
        except TypeError as e:
            return True, f'{ext}: save raises TypeError: {e}'
    return False, '; '.join(out)


def D25():
    lg, lcf, m, *_ = base()
    try:
        m.add_attacker(AttackerAttachment(name='a1'), attacker_id=9)
        m.add_attacker(AttackerAttachment(name='a2'), attacker_id=9)
    except ValueError:
        return False, 'duplicate attacker id rejected'
    n = len(m._to_dict()['attackers'])
    return n != len(m.attackers), f'{len(m.attackers)} attackers in the model, {n} serialised'


def D20():
    from maltoolbox.language.compiler import MalCompiler
    import io, contextlib
    got = []
    for fn in ('bad1.mal', 'bad2.mal'):
        try:
            with contextlib.redirect_stderr(io.StringIO()):
                spec = MalCompiler().compile(os.path.join(HERE, fn))
            got.append(f'{fn}: returned a spec with {len(spec["assets"])} asset(s)')
        except Exception as e:
            got.append(f'{fn}: {type(e).__name__}')
    return any('returned' in g for g in got), '; '.join(got)


def D22():
    from maltoolbox.language.compiler import MalCompiler
    spec = MalCompiler().compile(os.path.join(HERE, 'lang_ttc.mal'))
    steps = {s['name']: s['ttc'] for s in spec['assets'][0]['attackSteps']}

    def show(t):
        if t['type'] in ('multiplication', 'division'):
            return '(' + show(t['lhs']) + ('*' if t['type'] == 'multiplication' else '/') + show(t['rhs']) + ')'
        return 'Exp' if t['type'] == 'function' else str(int(t['value']))
    got = {k: show(v) for k, v in steps.items()}
    want = {'s1': '((Exp*2)*3)', 's2': '((Exp/2)*3)'}
    return got != want, f'TTC trees {got} (expected {want})'


def D3():
    lg, lcf, m, h1, h2, apps = base()
    l2 = lcf.ns.Link(); l2.prv = [h2]; l2.nxt = [h1]; m.add_association(l2)   # h1 <-> h2 cycle
    try:
        g = AttackGraph(lg, m)
    except RecursionError:
        return True, 'cyclic Link association: AttackGraph generation raises RecursionError'
    got = sorted(c.full_name for c in g.get_node_by_full_name('h1:trans').children)
    ok = set(got) >= {'h2:connect'} and set(got) <= {'h1:connect', 'h2:connect'}
    return not ok, f'nxt*.connect from h1 on a 2-cycle -> {got}'


def D23():
    lg = LanguageGraph.from_mal_spec(os.path.join(HERE, 'lang_d23.mal'))
    lcf = LanguageClassesFactory(lg)
    res = {}
    for order in ('declared', 'reversed'):
        m = Model('m', lcf)
        m.add_asset(lcf.ns.Box(name='b'))
        g = AttackGraph(lg, m)
        if order == 'reversed':
            g.nodes.reverse()
        apriori.calculate_viability_and_necessity(g)
        res[order] = g.get_node_by_full_name('b:x').is_necessary
    return res['declared'] != res['reversed'] or res['declared'] is not True, \
        f"necessity of the 'and' step x (parents: disabled defense d2, TTC-gated p1): {res} (expected True in any order)"


def D21():
    import zipfile
    from maltoolbox.translators.securicad import load_model_from_scad_archive
    lg, lcf, m0, *_ = base()
    eom = ('<?xml version="1.0"?><root>'
           '<objects id="1" metaConcept="Attacker" name="atk"/>'
           '<objects id="2" metaConcept="Host" name="h"/>'
           '<associations sourceObject="1" targetObject="2" sourceProperty="firstSteps" targetProperty="connect.attacker"/>'
           '<associations sourceObject="1" targetObject="2" sourceProperty="firstSteps" targetProperty="access.attacker"/>'
           '</root>')
    p = os.path.join(os.getcwd(), 'm.sCAD')
    with zipfile.ZipFile(p, 'w') as z:
        z.writestr('model.eom', eom)
    m = load_model_from_scad_archive(p, lg, lcf)
    ser = m._to_dict()['attackers']
    steps = sorted(s for a in ser.values() for ep in a['entry_points'].values() for s in ep['attack_steps'])
    return steps != ['access', 'connect'], f'two entry points on one asset in the .sCAD file -> serialised entry steps {steps}'


def D24():
    lg, lcf, m, h1, h2, apps = base()
    m2 = Model('m2', lcf)
    a = lcf.ns.Host(name='a'); m2.add_asset(a)
    l = lcf.ns.Link(); l.prv = [a]; l.nxt = [a]; m2.add_association(l)       # self-link a -> a
    nxt = [str(x.name) for x in m2.get_associated_assets_by_field_name(a, 'nxt')]
    prv = [str(x.name) for x in m2.get_associated_assets_by_field_name(a, 'prv')]
    return not (sorted(set(nxt)) == ['a'] and sorted(set(prv)) == ['a']), \
        f'self-link a.prv=[a], a.nxt=[a]: neighbours via nxt={nxt}, via prv={prv} (both must contain a)'


def D26():
    lg, lcf, m, h1, h2, apps = base()
    res = []
    for shape in ('prv=[a] nxt=[a]', 'prv=[a,b] nxt=[a,c]'):
        m2 = Model('m2', lcf)
        a = lcf.ns.Host(name='a'); b = lcf.ns.Host(name='b'); c = lcf.ns.Host(name='c')
        for x in (a, b, c):
            m2.add_asset(x)
        l = lcf.ns.Link()
        if shape.startswith('prv=[a] '):
            l.prv = [a]; l.nxt = [a]
        else:
            l.prv = [a, b]; l.nxt = [a, c]
        m2.add_association(l)
        try:
            m2.remove_asset(a)
            ok = a not in m2.assets and all(a not in getattr(x, k) for x in m2.associations for k in x._properties)
            res.append(f'{shape}: removed={ok}')
            if not ok:
                return True, '; '.join(res)
        except LookupError as e:
            return True, f'{shape}: remove_asset raised LookupError ({e}); asset still in model: {a in m2.assets}, associations left: {len(m2.associations)}'
    return False, '; '.join(res)


if __name__ == '__main__':
    ids = sys.argv[1:] or sorted((k for k in globals() if k[0] == 'D' and k[1:].isdigit()),
                                 key=lambda s: int(s[1:]))
    for d in ids:
        try:
            bad, what = globals()[d]()
        except Exception as e:      # a crash is also a manifestation
            bad, what = True, f'raised {type(e).__name__}: {e}'
        print(f'{d}: {"DEFECT" if bad else "ok"}  {what}')
