import sys, os, tempfile
from maltoolbox.language import LanguageGraph, LanguageClassesFactory
from maltoolbox.model import Model
lg = LanguageGraph.from_mal_spec('/verif/notes/demos/lang_d28.mal')
lcf = LanguageClassesFactory(lg)
m = Model('m', lcf)
h = lcf.ns.Host(name='h'); z = lcf.ns.Zone(name='z'); m.add_asset(h); m.add_asset(z)
a = lcf.ns.zoneConn(); a.hosts = [h]; a.zones = [z]; a.extras = {'note': 'dmz'}
m.add_association(a)
rc = 0
for ext in ('json', 'yml'):
    p = os.path.join(tempfile.mkdtemp(), 'm.' + ext)
    m.save_to_file(p)
    try:
        m2 = Model.load_from_file(p, lcf)
        same = m2._to_dict() == m._to_dict()
        print(ext, 'round trip equal:', same)
        rc |= 0 if same else 1
    except Exception as e:
        print(ext, 'load failed:', type(e).__name__, str(e)[:80]); rc = 1
sys.exit(rc)
