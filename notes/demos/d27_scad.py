import sys, zipfile, tempfile, os
from maltoolbox.language import LanguageGraph, LanguageClassesFactory
from maltoolbox.translators.securicad import load_model_from_scad_archive
lg = LanguageGraph.from_mal_spec('/verif/notes/demos/lang_d27.mal')
lcf = LanguageClassesFactory(lg)
eom = '''<?xml version="1.0"?>
<model>
 <objects id="1" name="s" metaConcept="Server"/>
 <objects id="2" name="n" metaConcept="Net"/>
 <associations sourceObject="2" targetObject="1" sourceProperty="hosts" targetProperty="nets"/>
</model>'''
d = tempfile.mkdtemp()
z = os.path.join(d, 'm.sCAD')
with zipfile.ZipFile(z, 'w') as f:
    f.writestr('model.eom', eom)
try:
    m = load_model_from_scad_archive(z, lg, lcf)
    print('loaded; associations:', [(type(a).__name__) for a in m.associations])
    sys.exit(0 if m is not None and len(m.associations) == 1 else 1)
except LookupError as e:
    print('LookupError:', str(e)[:100]); sys.exit(1)
