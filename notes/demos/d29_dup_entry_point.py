import sys
from maltoolbox.attackgraph import AttackGraph
from maltoolbox.attackgraph.node import AttackGraphNode
from maltoolbox.attackgraph.attacker import Attacker
g = AttackGraph()
n = AttackGraphNode(type='or', name='step', ttc={})
g.add_node(n)
a = Attacker('mallory')
g.add_attacker(a, entry_points=[n.id, n.id], reached_attack_steps=[n.id])
print('entry points:', [x.full_name for x in a.entry_points])
g.remove_node(n)
stale = [x for x in a.entry_points if x not in g.nodes]
print('after remove_node, entry points not in the graph:', [x.full_name for x in stale])
sys.exit(1 if stale else 0)
