import sys
from maltoolbox.language import LanguageGraph, LanguageClassesFactory
from maltoolbox.model import Model
from maltoolbox.attackgraph import AttackGraph
from maltoolbox.attackgraph.analyzers.apriori import calculate_viability_and_necessity
lg = LanguageGraph.from_mal_spec('' + __import__("os").path.dirname(__import__("os").path.abspath(__file__)) + '/lang_d30.mal')
lcf = LanguageClassesFactory(lg)
m = Model('m', lcf)
h = lcf.ns.Host(name='h', hardened=1.0)
m.add_asset(h)
g = AttackGraph(lg, m)
calculate_viability_and_necessity(g)
bad = 0
for n in g.nodes:
    print(n.full_name, n.type, [p.full_name for p in n.parents], n.is_viable, n.is_necessary)
acc = g.get_node_by_full_name('h:access')
# equations: or viable iff some parent viable. parents = {hardened (unviable), access (itself)}
# labelling access=True satisfies the equations and is greater => greatest fixed point has access viable
if not acc.is_viable:
    print('access unviable although the labelling with access viable satisfies all equations (greatest fixed point)')
    bad = 1
sys.exit(bad)
