#!/venv/bin/python
"""(Re)generate malsa/reference/pinned_ref.py from the CURRENT /repo tree for the functions listed in
malsa/rules/r24_pinned.py.  Run by hand after a reviewed change of the reference behaviour - never by a
check.  The generated file is parsed (never executed) by rule R24."""
import ast
import os
import sys

sys.path.insert(0, os.path.dirname(os.path.dirname(os.path.abspath(__file__))))
from malsa.core import Program
from malsa.rules.r24_pinned import PINNED

prog = Program('/repo')
out = ['"""Pinned reference implementations (rule R24): source that is PARSED, never imported or executed.',
       '',
       'Each function below is the reviewed behaviour of the repository function of the same qualified name',
       '(state of the repaired tree, reviewed against the property statements while the defects of DESIGN',
       'section 12.4 were fixed).  Regenerate with tools/make_pinned.py only after reviewing a behaviour change."""',
       '# flake8: noqa', '']
bycls = {}
for (fname, props) in PINNED:
    f = prog.func(fname)
    src = ast.get_source_segment(f.module.source, f.node)
    # drop decorators of properties etc.: keep the def as is
    cls = f.cls.name if f.cls is not None else None
    bycls.setdefault(cls, []).append((f, src))
for cls, items in bycls.items():
    if cls is None:
        for f, src in items:
            out.append(src)
            out.append('')
            out.append('')
    else:
        out.append(f'class {cls}:')
        for f, src in items:
            lines = src.splitlines()
            decos = ['    @' + ast.unparse(d) for d in f.node.decorator_list]
            out.extend(decos)
            out.extend('    ' + l if l.strip() else l for l in lines)
            out.append('')
        out.append('')
path = os.path.join(os.path.dirname(os.path.dirname(os.path.abspath(__file__))), 'malsa', 'reference', 'pinned_ref.py')
open(path, 'w').write('\n'.join(out) + '\n')
ast.parse(open(path).read())
print('written', path, len(PINNED), 'functions')
