#!/venv/bin/python
"""Run every seeded change under /verif/seeded against every registered check (16 workers).

For each seed: scratch copy of /repo/maltoolbox (mkdtemp, removed afterwards), apply ported.diff if
present (the seed re-based onto the current tree) else patch.diff, run all checks with MALSA_REPO
pointing at the copy.  Prints one line per seed: CAUGHT by <props/rules> | MISSED | PATCH-FAILED.
Not a registered check (self-test of the checkers).
"""
import concurrent.futures
import json
import os
import re
import shutil
import subprocess
import sys
import tempfile

VERIF = os.path.dirname(os.path.dirname(os.path.abspath(__file__)))


def one(seed):
    d = os.path.join(VERIF, 'seeded', seed)
    patch = os.path.join(d, 'ported.diff')
    if not os.path.exists(patch):
        patch = os.path.join(d, 'patch.diff')
    tmp = tempfile.mkdtemp(prefix='malsa_seed_')
    try:
        shutil.copytree('/repo/maltoolbox', os.path.join(tmp, 'maltoolbox'),
                        ignore=shutil.ignore_patterns('__pycache__'))
        r = subprocess.run(['patch', '-p1', '-s', '-f', '-d', tmp, '-i', patch], capture_output=True, text=True)
        if r.returncode != 0:
            return seed, 'PATCH-FAILED', {}
        env = dict(os.environ, MALSA_REPO=tmp, MALSA_NO_EVIDENCE='1')
        code = ('import sys, json; sys.path.insert(0, %r); from malsa.runner import check_all; '
                'print("RESULT " + json.dumps(check_all(%r)))' % (VERIF, tmp))
        r = subprocess.run(['/venv/bin/python', '-c', code], cwd=VERIF, env=env, capture_output=True, text=True)
        fired = {}
        line = [l for l in r.stdout.splitlines() if l.startswith('RESULT ')]
        if not line:
            return seed, 'SWEEP-ERROR', {'?': [(r.stderr or r.stdout)[-200:]]}
        for pid, res in json.loads(line[-1][7:]).items():
            if res['exit'] == 1:
                fired[pid] = res['rules']
            elif res['exit'] != 0:
                fired[pid] = ['EXIT%d' % res['exit']]
        return seed, ('CAUGHT' if fired else 'MISSED'), fired
    finally:
        shutil.rmtree(tmp, ignore_errors=True)


def main():
    seeds = sorted(os.listdir(os.path.join(VERIF, 'seeded')))
    if [a for a in sys.argv[1:] if not a.startswith('--')]:
        seeds = [s for s in seeds if any(a in s for a in sys.argv[1:] if not a.startswith('--'))] or seeds
    res = {}
    with concurrent.futures.ThreadPoolExecutor(max_workers=16) as ex:
        for seed, status, fired in ex.map(one, seeds):
            res[seed] = (status, fired)
    n = nb = nt = fa = 0
    write = '--write' in sys.argv
    for seed in seeds:
        status, fired = res[seed]
        mp = os.path.join(VERIF, 'seeded', seed, 'meta.json')
        meta = json.load(open(mp))
        if meta.get('kind') == 'obsolete':
            print(f'{seed:10s} obsolete     (no longer breaking on the current tree)')
            continue
        twin = meta.get('kind') == 'twin'
        own = seed.split('-')[0]
        mark = ''
        if twin:
            nt += 1
            if status == 'CAUGHT':
                fa += 1
                status = 'FALSE-ALARM'
            elif status == 'MISSED':
                status = 'silent'
        else:
            nb += 1
            if status == 'CAUGHT':
                n += 1
                mark = ' [own property]' if own in fired else ' [other property only]'
            if write and status in ('CAUGHT', 'MISSED'):
                real = {p: r for p, r in fired.items() if not any(x.startswith('EXIT') for x in r)}
                meta['expect'] = sorted(real)
                meta['caught_by'] = {p: real[p] for p in sorted(real)}
                json.dump(meta, open(mp, 'w'), indent=1)
        print(f'{seed:10s} {status:12s} ' + ' '.join(f'{p}:{"+".join(r)}' for p, r in sorted(fired.items())) + mark)
    print(f'{n}/{nb} breaking changes caught; {fa}/{nt} twins falsely reported')


if __name__ == '__main__':
    main()
