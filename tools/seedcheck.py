#!/venv/bin/python
"""Run every registered check against a scratch copy of /repo with one patch applied.

usage: tools/seedcheck.py <patch.diff> [--props C01,C02]     (prints which checks fire)
The scratch copy lives under a mkdtemp directory outside /repo and /verif and is removed.
Never a registered check: this is the harness used to try seeded changes.
"""
import json
import os
import shutil
import subprocess
import sys
import tempfile

VERIF = os.path.dirname(os.path.dirname(os.path.abspath(__file__)))


def main():
    patch = os.path.abspath(sys.argv[1])
    props = None
    if '--props' in sys.argv:
        props = sys.argv[sys.argv.index('--props') + 1].split(',')
    tmp = tempfile.mkdtemp(prefix='malsa_seed_')
    try:
        shutil.copytree('/repo/maltoolbox', os.path.join(tmp, 'maltoolbox'),
                        ignore=shutil.ignore_patterns('__pycache__'))
        r = subprocess.run(['patch', '-p1', '-s', '-d', tmp, '-i', patch], capture_output=True, text=True)
        if r.returncode != 0:
            print('PATCH-FAILED', r.stdout[-300:], r.stderr[-300:])
            return 3
        man = json.load(open(os.path.join(VERIF, 'MANIFEST.json')))
        ids = [c['property_id'] for c in man['checks']]
        if props:
            ids = [i for i in ids if i in props]
        env = dict(os.environ, MALSA_REPO=tmp, MALSA_NO_EVIDENCE='1')
        fired = {}
        for pid in ids:
            r = subprocess.run(['/venv/bin/python', '-m', 'malsa', 'check', pid], cwd=VERIF, env=env,
                               capture_output=True, text=True)
            lines = r.stdout.splitlines()
            if r.returncode == 1:
                cons = [l.strip() for l in lines if l.strip().startswith(('rule=', 'construct:'))]
                fired[pid] = cons
            elif r.returncode != 0:
                fired[pid] = ['EXIT %d: %s' % (r.returncode, ' | '.join(lines[-3:]))]
        if fired:
            for pid, cons in fired.items():
                print(f'FIRED {pid}: ' + ' ; '.join(cons[:6]))
        else:
            print('SILENT: no check fired')
        return 0
    finally:
        shutil.rmtree(tmp, ignore_errors=True)


if __name__ == '__main__':
    sys.exit(main())
