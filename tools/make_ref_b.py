#!/venv/bin/python
"""Transcribe the listed functions of /repo into malsa/reference/tables_ref_b.py (run by hand, then REVIEWED).

The B tables are a second tier of R17: functions whose behaviour no structural rule pins down (found by the
mutation sweep, tools/mutate.py).  Their reference is the function as it stood at the commit named in the file
header, read against the property statement it serves and kept as specification; the rule compares canonical
decision tables (not text), so renames, helper extraction, if/match, loops vs comprehensions etc. do not show,
and anything the table language cannot interpret is `unproven`.  This tool is NOT run by any check.
"""
import ast
import os
import subprocess
import sys

sys.path.insert(0, os.path.dirname(os.path.dirname(os.path.abspath(__file__))))
from malsa.rules.r17_tables import TABLES_B      # noqa: E402

REPO = '/repo'
OUT = os.path.join(os.path.dirname(os.path.dirname(os.path.abspath(__file__))), 'malsa', 'reference', 'tables_ref_b.py')


def main():
    head = subprocess.run(['git', '-C', REPO, 'rev-parse', '--short', 'HEAD'], capture_output=True, text=True).stdout.strip()
    index = {}
    for root, _, files in os.walk(os.path.join(REPO, 'maltoolbox')):
        for fn in files:
            if not fn.endswith('.py') or fn in ('mal_parser.py', 'mal_lexer.py'):
                continue
            p = os.path.join(root, fn)
            src = open(p, encoding='utf-8').read()
            tree = ast.parse(src)
            lines = src.splitlines()

            def add(node, prefix):
                for n in node.body:
                    if isinstance(n, (ast.FunctionDef,)):
                        q = prefix + n.name
                        start = min([n.lineno] + [d.lineno for d in n.decorator_list])
                        index.setdefault(q, []).append((p, '\n'.join(lines[n.lineno - 1:n.end_lineno]), n))
                        add(n, q + '.')
                    elif isinstance(n, ast.ClassDef):
                        add(n, prefix + n.name + '.')
            add(tree, '')
    out = [f'"""Reference tables, tier B: transcribed from /repo at {head} and reviewed against the property statements\n'
           '(see tools/make_ref_b.py).  Parsed and normalised by R17, never imported or executed."""\n# flake8: noqa\n']
    for tid, fname, props in TABLES_B:
        cands = index.get(fname) or [v for k, vs in index.items() if k.endswith('.' + fname) for v in vs]
        if len(cands) != 1:
            raise SystemExit(f'{fname}: {len(cands)} candidates')
        p, text, node = cands[0]
        import copy
        refname = fname.replace('.', '__')
        n2 = copy.deepcopy(node)
        n2.name = refname
        n2.decorator_list = []
        n2.returns = None
        for a in n2.args.args + n2.args.kwonlyargs + n2.args.posonlyargs:
            a.annotation = None
        # docstrings and log calls carry no behaviour
        class Strip(ast.NodeTransformer):
            def visit_Expr(self, e):
                if isinstance(e.value, ast.Constant) and isinstance(e.value.value, str):
                    return None
                if isinstance(e.value, ast.Call) and isinstance(e.value.func, ast.Attribute) \
                        and isinstance(e.value.func.value, ast.Name) and e.value.func.value.id == 'logger':
                    return None
                return e

            def generic_visit(self, n):
                super().generic_visit(n)
                for fld in ('body', 'orelse', 'finalbody'):
                    b = getattr(n, fld, None)
                    if isinstance(b, list) and not b and fld == 'body':
                        n.body = [ast.Pass()]
                return n
        n2 = Strip().visit(n2)
        ast.fix_missing_locations(n2)
        text = ast.unparse(n2)
        out.append(f'\n# ---- {tid}  {fname}  ({", ".join(props)})  [{os.path.relpath(p, REPO)}]\n{text}\n')
    open(OUT, 'w', encoding='utf-8').write('\n'.join(out))
    print('wrote', OUT, len(TABLES_B), 'functions')


if __name__ == '__main__':
    main()
