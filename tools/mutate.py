#!/venv/bin/python
"""Operator-level mutation sweep of /repo/maltoolbox against the registered checks (self-test of the checkers).

For every mutation site in the hand-written modules one scratch copy of /repo (under /dev/shm, removed
afterwards) gets exactly one token-level change (negated test, swapped comparison, and<->or, deleted
statement, True<->False, n->n+1, swapped arguments, continue<->break, sibling attribute).  Each mutant is
    1. run through every registered check (malsa.runner.check_all, shared context) -> fired properties;
    2. if all checks are silent: run through the pinned test suite in a private mount namespace with its
       own /tmp (the suite writes fixed names there) -> killed / survived.
The interesting output is the list 'silent and survived': mutants neither the tests nor the checks notice.
They are candidates only - many are equivalent (log text, redundant guards) - and are triaged by hand.

Not a registered check; nothing here decides a property.  Usage:
    tools/mutate.py [--files model.py ...] [--ops NEG,CMP,...] [--limit N] [--out FILE] [--no-tests]
"""
from __future__ import annotations

import ast
import concurrent.futures
import json
import os
import re
import shutil
import subprocess
import sys
import tempfile

VERIF = os.path.dirname(os.path.dirname(os.path.abspath(__file__)))
REPO = '/repo'
SCRATCH = '/dev/shm/malsa_mut'
SKIP_FILES = {'mal_parser.py', 'mal_lexer.py', '__main__.py', '__init__.py', 'exceptions.py'}
CMP_SWAP = {'==': '!=', '!=': '==', '<': '<=', '<=': '<', '>': '>=', '>=': '>', 'in': 'not in', 'not in': 'in',
            'is': 'is not', 'is not': 'is'}
CMP_TXT = {ast.Eq: '==', ast.NotEq: '!=', ast.Lt: '<', ast.LtE: '<=', ast.Gt: '>', ast.GtE: '>=', ast.In: 'in',
           ast.NotIn: 'not in', ast.Is: 'is', ast.IsNot: 'is not'}
SIBLINGS = {'children': 'parents', 'parents': 'children', 'left_field': 'right_field', 'right_field': 'left_field',
            'is_viable': 'is_necessary', 'is_necessary': 'is_viable', 'append': 'remove', 'add': 'discard',
            'min': 'max', 'max': 'min', 'any': 'all', 'all': 'any', 'compromised_by': 'reached_attack_steps',
            'minimum': 'maximum', 'maximum': 'minimum', 'extend': 'append', 'union': 'intersection',
            'intersection': 'union', 'update': 'difference_update', 'values': 'keys', 'sub_assets': 'super_assets',
            'super_assets': 'sub_assets'}


class Src:
    def __init__(self, text):
        self.text = text
        self.lines = text.splitlines(keepends=True)
        self.off = [0]
        for l in self.lines:
            self.off.append(self.off[-1] + len(l.encode('utf-8')))
        self.bytes = text.encode('utf-8')

    def pos(self, line, col):
        return self.off[line - 1] + col

    def span(self, node):
        return self.pos(node.lineno, node.col_offset), self.pos(node.end_lineno, node.end_col_offset)

    def seg(self, a, b):
        return self.bytes[a:b].decode('utf-8')

    def replace(self, a, b, new):
        return (self.bytes[:a] + new.encode('utf-8') + self.bytes[b:]).decode('utf-8')


def _is_log(node):
    """call on a logger / print: its arguments carry no behaviour"""
    if isinstance(node, ast.Call):
        f = node.func
        if isinstance(f, ast.Attribute) and isinstance(f.value, ast.Name) and f.value.id in ('logger', 'logging', 'log'):
            return True
        if isinstance(f, ast.Name) and f.id == 'print':
            return True
    return False


def sites(path, src: Src, ops):
    tree = ast.parse(src.text)
    parent = {}
    for n in ast.walk(tree):
        for c in ast.iter_child_nodes(n):
            parent[c] = n

    def in_noise(n):
        while n in parent:
            n = parent[n]
            if _is_log(n) or isinstance(n, (ast.Raise, ast.JoinedStr, ast.Assert)):
                return True
            if isinstance(n, ast.arguments) or (isinstance(n, ast.AnnAssign) and False):
                return False
        return False

    def func_of(n):
        names = []
        while n in parent:
            n = parent[n]
            if isinstance(n, (ast.FunctionDef, ast.ClassDef)):
                names.append(n.name)
        return '.'.join(reversed(names)) or '<module>'

    out = []

    def add(op, node, a, b, new):
        old = src.seg(a, b)
        if old == new:
            return
        out.append({'op': op, 'func': func_of(node), 'line': node.lineno, 'a': a, 'b': b, 'old': old, 'new': new})

    for n in ast.walk(tree):
        if not hasattr(n, 'lineno') and not isinstance(n, ast.comprehension):
            continue
        if isinstance(n, ast.expr) and in_noise(n):
            continue
        if 'NEG' in ops and isinstance(n, (ast.If, ast.While, ast.IfExp)):
            t = n.test
            a, b = src.span(t)
            if isinstance(t, ast.UnaryOp) and isinstance(t.op, ast.Not):
                oa, ob = src.span(t.operand)
                add('NEG', t, a, b, '(' + src.seg(oa, ob) + ')')
            else:
                add('NEG', t, a, b, 'not (' + src.seg(a, b) + ')')
        if 'NEG' in ops and isinstance(n, ast.comprehension):
            for t in n.ifs:
                a, b = src.span(t)
                add('NEG', t, a, b, 'not (' + src.seg(a, b) + ')')
        if 'CMP' in ops and isinstance(n, ast.Compare) and len(n.ops) == 1:
            la = src.span(n.left)[1]
            rb = src.span(n.comparators[0])[0]
            gap = src.seg(la, rb)
            tok = CMP_TXT[type(n.ops[0])]
            m = re.search(r'(?<![=!<>\w])' + re.escape(tok).replace(r'\ ', r'\s+') + r'(?![=\w])', gap)
            if m:
                add('CMP', n, la + len(gap[:m.start()].encode()), la + len(gap[:m.end()].encode()), CMP_SWAP[tok])
        if 'BOOL' in ops and isinstance(n, ast.BoolOp):
            tok = 'and' if isinstance(n.op, ast.And) else 'or'
            for x, y in zip(n.values, n.values[1:]):
                xa = src.span(x)[1]
                yb = src.span(y)[0]
                gap = src.seg(xa, yb)
                m = re.search(r'\b' + tok + r'\b', gap)
                if m:
                    add('BOOL', n, xa + len(gap[:m.start()].encode()), xa + len(gap[:m.end()].encode()),
                        'or' if tok == 'and' else 'and')
        if 'DEL' in ops and isinstance(n, ast.stmt):
            ok = False
            if isinstance(n, ast.Expr) and isinstance(n.value, ast.Call) and not _is_log(n.value):
                ok = True
            if isinstance(n, (ast.Assign, ast.AugAssign)):
                tg = n.targets[0] if isinstance(n, ast.Assign) else n.target
                if isinstance(tg, (ast.Attribute, ast.Subscript)) or isinstance(n, ast.AugAssign):
                    ok = True
            if isinstance(n, (ast.Continue, ast.Break, ast.Raise, ast.Delete)):
                ok = True
            if isinstance(n, ast.Return) and n.value is not None and isinstance(parent.get(n), (ast.If, ast.For, ast.While)):
                ok = True
            if ok:
                a, b = src.span(n)
                add('DEL', n, a, b, 'pass')
        if 'LOOP' in ops and isinstance(n, (ast.Continue, ast.Break)):
            a, b = src.span(n)
            add('LOOP', n, a, b, 'break' if isinstance(n, ast.Continue) else 'continue')
        if 'CONST' in ops and isinstance(n, ast.Constant) and not isinstance(parent.get(n), ast.Expr):
            a, b = src.span(n)
            if n.value is True:
                add('CONST', n, a, b, 'False')
            elif n.value is False:
                add('CONST', n, a, b, 'True')
            elif isinstance(n.value, int) and not isinstance(n.value, bool):
                add('CONST', n, a, b, str(n.value + 1))
                if n.value > 0:
                    add('CONST', n, a, b, str(n.value - 1))
        if 'NOT' in ops and isinstance(n, ast.UnaryOp) and isinstance(n.op, ast.Not) \
                and not isinstance(parent.get(n), (ast.If, ast.While)):
            a, b = src.span(n)
            oa, ob = src.span(n.operand)
            add('NOT', n, a, b, '(' + src.seg(oa, ob) + ')')
        if 'ARGS' in ops and isinstance(n, ast.Call) and len(n.args) >= 2 and not _is_log(n) \
                and not any(isinstance(x, ast.Starred) for x in n.args[:2]):
            (a1, b1), (a2, b2) = src.span(n.args[0]), src.span(n.args[1])
            if type(n.args[0]) is type(n.args[1]) or all(isinstance(x, (ast.Name, ast.Attribute)) for x in n.args[:2]):
                add('ARGS', n, a1, b2, src.seg(a2, b2) + src.seg(b1, a2) + src.seg(a1, b1))
        if 'SIB' in ops and isinstance(n, ast.Attribute) and n.attr in SIBLINGS and isinstance(n.ctx, ast.Load):
            b = src.span(n)[1]
            a = b - len(n.attr)
            add('SIB', n, a, b, SIBLINGS[n.attr])
        if 'SIB' in ops and isinstance(n, ast.Name) and n.id in SIBLINGS and isinstance(parent.get(n), ast.Call) \
                and parent[n].func is n:
            a, b = src.span(n)
            add('SIB', n, a, b, SIBLINGS[n.id])
        if 'AOR' in ops and isinstance(n, ast.BinOp) and isinstance(n.op, (ast.Add, ast.Sub)) \
                and not isinstance(n.left, (ast.Constant, ast.JoinedStr)) and not isinstance(n.right, ast.JoinedStr) \
                and not (isinstance(n.right, ast.Constant) and isinstance(n.right.value, str)):
            la = src.span(n.left)[1]
            rb = src.span(n.right)[0]
            gap = src.seg(la, rb)
            tok = '+' if isinstance(n.op, ast.Add) else '-'
            k = gap.find(tok)
            if k >= 0:
                add('AOR', n, la + k, la + k + 1, '-' if tok == '+' else '+')
    # unique by (a, b, new)
    seen = set()
    res = []
    for s in out:
        k = (s['a'], s['b'], s['new'])
        if k not in seen:
            seen.add(k)
            s['file'] = path
            res.append(s)
    return res


def run_one(job):
    idx, site, do_tests = job
    rel = site['file']
    tmp = tempfile.mkdtemp(prefix='m_', dir=SCRATCH)
    try:
        subprocess.run(['rsync', '-a', '--exclude', '.git', '--exclude', '__pycache__', '--exclude', 'tmp',
                        REPO + '/', tmp + '/'], check=True)
        p = os.path.join(tmp, rel)
        src = Src(open(p, encoding='utf-8').read())
        new = src.replace(site['a'], site['b'], site['new'])
        try:
            compile(new, p, 'exec')
        except SyntaxError as e:
            return idx, {'status': 'nocompile', 'err': str(e)}
        open(p, 'w', encoding='utf-8').write(new)
        env = dict(os.environ, MALSA_REPO=tmp, MALSA_NO_EVIDENCE='1')
        code = ('import sys, json; sys.path.insert(0, %r); from malsa.runner import check_all; '
                'print("RESULT " + json.dumps(check_all(%r)))' % (VERIF, tmp))
        r = subprocess.run(['/venv/bin/python', '-c', code], cwd=VERIF, env=env, capture_output=True, text=True)
        line = [l for l in r.stdout.splitlines() if l.startswith('RESULT ')]
        if not line:
            return idx, {'status': 'sweep-error', 'err': (r.stderr or r.stdout)[-300:]}
        fired, broken = {}, {}
        for pid, res in json.loads(line[-1][7:]).items():
            if res['exit'] == 1:
                fired[pid] = res['rules']
            elif res['exit'] != 0:
                broken[pid] = res['exit']
        out = {'status': 'caught' if fired else ('exit2' if broken else 'silent'), 'fired': fired, 'broken': broken}
        if do_tests and not fired:
            cmd = ('mount -t tmpfs tmpfs /tmp && cd %s && PYTHONPATH=%s timeout 300 /venv/bin/python -m pytest -q -x '
                   '-p no:cacheprovider --timeout=120 2>&1 | tail -3' % (tmp, tmp))
            t = subprocess.run(['unshare', '-m', 'sh', '-c', cmd], capture_output=True, text=True)
            tail = t.stdout.strip().splitlines()[-1] if t.stdout.strip() else ''
            out['tests'] = 'survived' if re.search(r'\b60 passed', tail) else 'killed'
            out['tests_tail'] = tail[-120:]
        return idx, out
    finally:
        shutil.rmtree(tmp, ignore_errors=True)


def main():
    args = sys.argv[1:]

    def opt(name, default=None):
        if name in args:
            return args[args.index(name) + 1]
        return default
    ops = set((opt('--ops') or 'NEG,CMP,BOOL,DEL,LOOP,CONST,NOT,ARGS,SIB,AOR').split(','))
    only = (opt('--files') or '').split(',') if opt('--files') else None
    limit = int(opt('--limit', '0'))
    outp = opt('--out', os.path.join(SCRATCH, 'results.jsonl'))
    funcs = (opt('--funcs') or '').split(',') if opt('--funcs') else None
    do_tests = '--no-tests' not in args
    os.makedirs(SCRATCH, exist_ok=True)
    all_sites = []
    for root, _, files in os.walk(os.path.join(REPO, 'maltoolbox')):
        for fn in sorted(files):
            if not fn.endswith('.py') or fn in SKIP_FILES:
                continue
            if only and fn not in only:
                continue
            p = os.path.join(root, fn)
            rel = os.path.relpath(p, REPO)
            src = Src(open(p, encoding='utf-8').read())
            ss = sites(rel, src, ops)
            if funcs:
                ss = [s for s in ss if any(f in s['func'] for f in funcs)]
            all_sites += ss
    only_from = opt('--survivors-of')
    if only_from:
        # re-run only the mutants that an earlier sweep found silent and surviving (same /repo HEAD: same offsets)
        keep = set()
        for l in open(only_from):
            r = json.loads(l)
            if r.get('status') in ('silent', 'exit2') and r.get('tests') == 'survived':
                keep.add((r['file'], r['a'], r['b'], r['new']))
        all_sites = [s_ for s_ in all_sites if (s_['file'], s_['a'], s_['b'], s_['new']) in keep]
    if limit:
        all_sites = all_sites[:limit]
    print(f'{len(all_sites)} mutation sites', flush=True)
    jobs = [(i, s, do_tests) for i, s in enumerate(all_sites)]
    n = 0
    with open(outp, 'w') as fh, concurrent.futures.ThreadPoolExecutor(max_workers=16) as ex:
        for idx, res in ex.map(run_one, jobs):
            s = dict(all_sites[idx])
            s.update(res)
            fh.write(json.dumps(s) + '\n')
            fh.flush()
            n += 1
            if n % 50 == 0:
                print(f'  {n}/{len(jobs)}', flush=True)
    rows = [json.loads(l) for l in open(outp)]
    by = {}
    for r in rows:
        k = r['status'] if r['status'] != 'silent' else 'silent/' + r.get('tests', '?')
        by[k] = by.get(k, 0) + 1
    print(json.dumps(by, indent=1))
    print('results in', outp)


if __name__ == '__main__':
    main()
